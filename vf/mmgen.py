"""
E2: seeded meta-model generator (MMG).

Produces *source text* of meta-models in the Python subset the front end admits,
with class DAGs (diamonds, chains), constrained-primitive chains, enumerations,
constants, verification functions and invariants drawn from a typed expression
grammar.  The generator never imports ``aas_core_codegen``; the reference semantics
of what it emits is Python itself (:mod:`vf.pyexec`).
"""
import random
from typing import Any, Dict, List, Optional, Sequence, Tuple

PRIMS = ["bool", "int", "float", "str", "bytearray"]

WORDS = [
    "alpha", "beta", "gamma", "delta", "item", "value", "name", "kind", "code", "text",
    "size", "count", "level", "flag", "data", "entry", "node", "part", "unit", "mark",
    "label", "index", "score", "range", "shape", "state", "title", "token", "width", "zone",
]

CMP = ["<", "<=", "==", ">", ">=", "!="]

IMPORTS = '''from enum import Enum
from re import match
from typing import List, Optional, Set

from icontract import invariant, DBC, ensure

from aas_core_meta.marker import (
    abstract,
    serialization,
    implementation_specific,
    verification,
    constant_set,
    non_mutating,
)
'''


class Profile:
    """Knobs of the generator; every check picks what it needs."""

    def __init__(self, **kw: Any) -> None:
        self.n_enums = (0, 3)
        self.n_cprims = (0, 4)
        self.n_classes = (1, 7)
        self.max_props = 4
        self.max_bases = 2
        self.p_abstract = 0.3
        self.p_optional = 0.35
        self.p_list = 0.3
        self.p_invariant = 0.7  # per class
        self.max_invariants = 3
        self.expr_depth = 2
        self.p_model_type = 0.4
        self.p_diamond = 0.25
        self.p_cprim_multi = 0.35  # a constrained primitive with two parents
        self.p_cmp_of_cmp = 0.08  # comparison whose operand is a comparison
        self.p_docstrings = 0.3
        self.n_pattern_fns = (0, 3)
        self.n_transpilable_fns = (0, 2)
        self.n_impl_fns = (0, 1)
        self.n_const_sets = (0, 3)
        self.n_const_prims = (0, 2)
        self.p_impl_method = 0.15
        self.p_defaults = 0.3
        self.list_of_lists = False
        self.list_of_primitives = True
        self.bool_cprims = True
        self.hostile_strings = False
        self.astral_patterns = False
        self.simple_patterns = False
        self.schema_invariants_only = False  # restrict to recognised schema forms
        self.any_all = True
        self.nested_member = True
        self.ensure_concrete = True
        self.class_properties = True
        self.bytes_props = True
        self.float_props = True
        self.nasty_docs = False
        self.sdk_safe = False  # avoid shapes on which the Python generator crashes
        self.incomplete_supersets = False  # a superset may omit literals of its subset (front end must reject)
        self.mistype = False  # add exactly one invariant with one typing obligation flipped
        for key, value in kw.items():
            if not hasattr(self, key):
                raise AttributeError(key)
            setattr(self, key, value)


class T:
    """Type of a generated property or expression."""

    def __init__(self, kind: str, name: str = "", inner: Optional["T"] = None):
        self.kind = kind  # prim | cprim | enum | cls | list | optional
        self.name = name
        self.inner = inner

    def src(self, quote_classes: bool = True) -> str:
        if self.kind in ("prim",):
            return self.name
        if self.kind in ("cprim", "enum", "cls"):
            return f'"{self.name}"' if quote_classes else self.name
        if self.kind == "list":
            return f"List[{self.inner.src(quote_classes)}]"
        if self.kind == "optional":
            return f"Optional[{self.inner.src(quote_classes)}]"
        raise AssertionError(self.kind)


class GProp:
    def __init__(self, name: str, type_: T, default: Optional[str] = None):
        self.name = name
        self.type = type_
        self.default = default  # source of the default expression, or None
        self.doc: Optional[str] = None


class GClass:
    def __init__(self, name: str):
        self.name = name
        self.bases: List[str] = []
        self.abstract = False
        self.with_model_type: Optional[bool] = None
        self.props: List[GProp] = []
        self.invariants: List[Tuple[str, str]] = []  # (lambda body, description)
        self.impl_methods: List[Tuple[str, str, str]] = []  # name, return type src, body
        self.doc: Optional[str] = None
        self.all_props: List[GProp] = []  # inherited first


class GCPrim:
    def __init__(self, name: str, base: str, prim: str):
        self.name = name
        self.base = base  # primitive name or another cprim
        self.extra_bases: List[str] = []  # further constrained primitives of the same primitive
        self.prim = prim
        self.invariants: List[Tuple[str, str]] = []
        self.doc: Optional[str] = None


class GEnum:
    def __init__(self, name: str, literals: List[Tuple[str, str]]):
        self.name = name
        self.literals = literals
        self.doc: Optional[str] = None


class GFunc:
    def __init__(self, name: str, kind: str, args: List[Tuple[str, str]], body: str):
        self.name = name
        self.kind = kind  # pattern | transpilable | impl
        self.args = args  # (name, type source)
        self.body = body
        self.arg_types: List[T] = []
        self.pattern: Optional[str] = None


class GConst:
    def __init__(self, name: str, src: str, kind: str, elem: str = ""):
        self.name = name
        self.src = src
        self.kind = kind  # set_str | set_int | set_enum | prim
        self.elem = elem  # element type name (enum name / primitive)
        self.values: List[Any] = []


HOSTILE = ['"', "'", "\\", "\t", "{", "}", "$", "`", "é", "ß", "→", "\U0001F600", "<", "&", ">", "*/", "%s", "\x7f"]
#: for *values* only (constants, enumeration literals): characters that line-splitting and
#: escaping helpers treat specially -- NUL before an octal digit, the separators that
#: ``str.splitlines`` breaks on, carriage return
HOSTILE_VALUES = HOSTILE + ["\x007", "\x00", "\x1c", "\x1d", "\x1e", "\x85", "\u2028", "\u2029", "\r", "\x0b", "\x0c"]


class Model:
    def __init__(self) -> None:
        self.enums: List[GEnum] = []
        self.cprims: List[GCPrim] = []
        self.classes: List[GClass] = []
        self.funcs: List[GFunc] = []
        self.consts: List[GConst] = []
        self.text = ""
        self.features: Dict[str, int] = {}
        self.mistyped: List[Tuple[str, str, str]] = []

    def feature(self, name: str) -> None:
        self.features[name] = self.features.get(name, 0) + 1


class Generator:
    def __init__(self, rng: random.Random, profile: Optional[Profile] = None) -> None:
        self.rng = rng
        self.p = profile or Profile()
        self.m = Model()
        self.used_names: set = set()
        self.desc_counter = 0

    # -- names -------------------------------------------------------------
    def fresh(self, prefix: str, capital: bool) -> str:
        for _ in range(1000):
            n_words = self.rng.choice([1, 1, 2, 2, 3])
            words = [self.rng.choice(WORDS) for _ in range(n_words)]
            name = "_".join(words)
            if prefix:
                name = f"{prefix}_{name}"
            if capital:
                name = name[0].upper() + name[1:]
            if self.rng.random() < 0.15:
                name += str(self.rng.randint(0, 9))
            if self.rng.random() < 0.1:
                parts = name.split("_")
                k = self.rng.randrange(len(parts))
                parts[k] = parts[k].upper()
                if not capital and k == 0:
                    parts[k] = parts[k].lower()
                name = "_".join(parts)
            key = name.lower().replace("_", "")
            if key not in self.used_names and name.lower() not in RESERVED:
                self.used_names.add(key)
                return name
        raise RuntimeError("name pool exhausted")

    def rint(self, bounds: Tuple[int, int]) -> int:
        return self.rng.randint(bounds[0], bounds[1])

    def description(self, hint: str = "") -> str:
        self.desc_counter += 1
        words = [self.rng.choice(WORDS + ["the", "a", "an", "must", "be", "of"])
                 for _ in range(self.rng.choice([2, 4, 8, 16, 25]))]
        text = f"Constraint {self.desc_counter}: " + " ".join(words)
        if self.p.hostile_strings and self.rng.random() < 0.5:
            k = self.rng.randrange(len(text))
            text = text[:k] + self.rng.choice(HOSTILE) + text[k:]
        if hint:
            text += f" ({hint})"
        return text.strip() + "."

    def str_literal(self, value: str) -> str:
        return repr(value) if "'" not in value or '"' in value else '"' + value.replace("\\", "\\\\") + '"'

    # -- model -----------------------------------------------------------------
    def generate(self) -> Model:
        self.gen_enums()
        self.gen_funcs()
        self.gen_consts()
        self.gen_cprims()
        self.gen_classes()
        self.gen_class_bodies()
        if self.p.sdk_safe:
            self.break_required_cycles()
        self.gen_class_invariants()
        if self.p.mistype:
            self.add_mistyped_invariant()
        self.fix_model_types()
        self.m.text = self.render()
        return self.m

    def gen_enums(self) -> None:
        for _ in range(self.rint(self.p.n_enums)):
            name = self.fresh("", True)
            n = self.rng.randint(1, 5)
            literals = []
            seen_values = set()
            seen_names = set()
            for _ in range(n):
                lit = self.rng.choice(WORDS).capitalize()
                if self.rng.random() < 0.4:
                    lit += "_" + self.rng.choice(WORDS)
                if lit.lower() in seen_names or lit.lower() in RESERVED:
                    continue
                value = lit.replace("_", "-").upper() if self.rng.random() < 0.5 else lit
                if self.p.hostile_strings and self.rng.random() < 0.4:
                    value += self.rng.choice(HOSTILE_VALUES)
                    if self.rng.random() < 0.5:
                        value += self.rng.choice(["b", "1", " "])
                if value in seen_values:
                    continue
                seen_names.add(lit.lower())
                seen_values.add(value)
                literals.append((lit, value))
            if not literals:
                literals = [("Only", "only")]
            enum = GEnum(name, literals)
            if self.rng.random() < self.p.p_docstrings:
                enum.doc = self.docstring()
            self.m.enums.append(enum)

    def docstring(self) -> str:
        words = " ".join(self.rng.choice(WORDS) for _ in range(self.rng.randint(2, 9)))
        text = f"Represent {words}."
        if self.p.nasty_docs and self.rng.random() < 0.6:
            text = f"Represent {words} {self.rng.choice(NASTY_DOC)} end."
        return text

    # -- patterns --------------------------------------------------------------
    def gen_pattern(self) -> str:
        rng = self.rng
        if self.p.simple_patterns:
            pieces = ["[a-z]", "[A-Z]", "[0-9]", "[a-zA-Z_]", "x", "ab", "-", "[a-c0-2]"]
        else:
            pieces = [
                "[a-z]", "[A-Z]", "[0-9]", "[a-zA-Z_]", "x", "ab", "-", "\\.", "[^a]",
                "(a|b)", "(ab|cd|e)", "[a-c0-2]", "\\x41", "\\u00e9", ".", "[\\-_]",
                '"', "'", "[\"']", "/", "#", "\\x4A",
            ]
            if self.p.astral_patterns:
                pieces += ["\\U0001f600", "[\\U00010000-\\U0010ffff]", "[\\ud7ff-\\ue000]"[:0] or "é"]
        quants = ["", "", "*", "+", "?", "{2}", "{1,3}", "{2,}"]
        n = rng.randint(1, 4)
        body = ""
        for _ in range(n):
            piece = rng.choice(pieces)
            quant = rng.choice(quants)
            if quant and len(piece) > 1 and not piece.startswith(("[", "(", "\\")):
                piece = f"({piece})"
            body += piece + quant
        return f"^{body}$"

    @staticmethod
    def fstring_src(text: str) -> str:
        """Escape ``text`` so that it can be pasted between the quotes of an f-string."""
        return (
            text.replace("\\", "\\\\")
            .replace("{", "{{")
            .replace("}", "}}")
            .replace('"', '\\"')
        )

    def gen_funcs(self) -> None:
        for _ in range(self.rint(self.p.n_pattern_fns)):
            name = "matches_" + self.fresh("", False)
            pattern = self.gen_pattern()
            r = self.rng.random()
            if r < 0.12 and not self.p.simple_patterns:
                # variables interpolated in the middle and twice, one built from the other
                inner = self.fstring_src(pattern[1:-1])
                body = (
                    f'    word = "[a-z]+"\n'
                    f'    pair = f"{{word}}-{{word}}"\n'
                    f'    pattern = f"^({{pair}}|{inner}){{word}}?$"\n'
                    f"    return match(pattern, text) is not None"
                )
                pattern = "^([a-z]+-[a-z]+|" + pattern[1:-1] + ")[a-z]+?$"
                pattern = pattern[:-3] + "([a-z]+)?$"
                body = body.replace("{word}?$", "({word})?$")
                self.m.feature("pattern-with-nested-fstring-values")
            elif r < 0.3 and not self.p.simple_patterns:
                body = (
                    f'    prefix = "[a-z]"\n'
                    f'    pattern = f"^{{prefix}}{self.fstring_src(pattern[1:-1])}$"\n'
                    f"    return match(pattern, text) is not None"
                )
                pattern = "^[a-z]" + pattern[1:-1] + "$"
                self.m.feature("pattern-with-fstring-value")
            else:
                body = (
                    f'    pattern = f"{self.fstring_src(pattern)}"\n'
                    f"    return match(pattern, text) is not None"
                )
            fn = GFunc(name, "pattern", [("text", "str")], body)
            fn.arg_types = [T("prim", "str")]
            fn.pattern = pattern
            self.m.funcs.append(fn)
        for _ in range(self.rint(self.p.n_transpilable_fns)):
            name = "is_" + self.fresh("", False)
            kind = self.rng.choice(["int", "str", "float"])
            if kind == "int":
                expr = self.rng.choice(
                    ["value > 0", "value >= 10 and value < 100", "not (value == 3)",
                     "value + 1 > 5", "0 <= value",
                     "=shifted = value - 2\n    return shifted > 0 and shifted < 50",
                     "=positive = value > 0\n    small = value < 10\n    return positive and small",
                     "=limit = 7\n    return value - (limit - 2) >= 0"]
                )
                if expr.startswith("="):
                    self.m.feature("function-with-local-variables")
                    fn = GFunc(name, "transpilable", [("value", "int")], f"    {expr[1:]}")
                else:
                    fn = GFunc(name, "transpilable", [("value", "int")], f"    return {expr}")
                fn.arg_types = [T("prim", "int")]
            elif kind == "float":
                expr = self.rng.choice(["value > 0.5", "value <= 100.0", "value >= 0.0 and value <= 1.0"])
                fn = GFunc(name, "transpilable", [("value", "float")], f"    return {expr}")
                fn.arg_types = [T("prim", "float")]
            else:
                expr = self.rng.choice(
                    ["len(text) > 2", 'text == "ok"', 'len(text) >= 1 and len(text) <= 5',
                     'text != "bad" or len(text) == 0',
                     "=size = len(text)\n    return size >= 1 and size <= 6",
                     '=expected = "ok"\n    return text == expected or len(text) > 3']
                )
                if expr.startswith("="):
                    self.m.feature("function-with-local-variables")
                    fn = GFunc(name, "transpilable", [("text", "str")], f"    {expr[1:]}")
                else:
                    fn = GFunc(name, "transpilable", [("text", "str")], f"    return {expr}")
                fn.arg_types = [T("prim", "str")]
            self.m.funcs.append(fn)
        for _ in range(self.rint(self.p.n_impl_fns)):
            name = "check_" + self.fresh("", False)
            expr = self.rng.choice(
                ["len(text) % 2 == 0", 'text.startswith("a")', "text == text[::-1]"]
            )
            fn = GFunc(name, "impl", [("text", "str")], f"    return {expr}")
            fn.arg_types = [T("prim", "str")]
            self.m.funcs.append(fn)

    def gen_consts(self) -> None:
        rng = self.rng
        sets_by_elem: Dict[str, List[GConst]] = {}
        for _ in range(self.rint(self.p.n_const_sets)):
            name = self.fresh("", True)
            choice = rng.random()
            if choice < 0.4 and self.m.enums:
                enum = rng.choice(self.m.enums)
                k = rng.randint(1, len(enum.literals))
                lits = rng.sample(enum.literals, k)
                values = [f"{enum.name}.{lit}" for lit, _ in lits]
                elem, kind, ann = enum.name, "set_enum", f"Set[{enum.name}]"
                pyvalues = [(enum.name, lit) for lit, _ in lits]
            elif choice < 0.8:
                pool = ["red", "green", "blue", "x", "", "A b", "ok", "bad"]
                if self.p.hostile_strings:
                    pool += HOSTILE_VALUES + ["a\x1cb", "a\u2028b", "\x0012"]
                k = rng.randint(1, 4)
                chosen = rng.sample(pool, k)
                values = [self.str_literal(v) for v in chosen]
                elem, kind, ann = "str", "set_str", "Set[str]"
                pyvalues = chosen
            else:
                chosen = rng.sample([0, 1, 2, 3, 5, 8, 100, 2**31, 2**40], rng.randint(1, 4))
                values = [repr(v) for v in chosen]
                elem, kind, ann = "int", "set_int", "Set[int]"
                pyvalues = chosen
            superset_src = ""
            candidates = sets_by_elem.get(kind + elem, [])
            if candidates and rng.random() < 0.5:
                sub = rng.choice(candidates)
                # the front end demands that all literals of the subset are listed
                omit = self.p.incomplete_supersets and rng.random() < 0.5
                for v, pv in zip(sub.src_values, sub.values):
                    if pv not in pyvalues:
                        if omit:
                            self.m.feature("constant-set-superset-omits-subset-literal")
                            omit = False
                            continue
                        values.append(v)
                        pyvalues.append(pv)
                superset_src = f", superset_of=[{sub.name}]"
                self.m.feature("constant-set-superset_of")
            desc = f', description="{self.docstring()}"' if rng.random() < 0.3 and not self.p.nasty_docs else ""
            src = f"{name}: {ann} = constant_set(values=[{', '.join(values)}]{desc}{superset_src})"
            const = GConst(name, src, kind, elem)
            const.values = pyvalues
            const.src_values = values
            sets_by_elem.setdefault(kind + elem, []).append(const)
            self.m.consts.append(const)
        for _ in range(self.rint(self.p.n_const_prims)):
            name = self.fresh("", True)
            prim = rng.choice(["str", "int", "float", "bool"])
            if prim == "str":
                value = rng.choice(["some text", "", "x", "line\nbreak", "tab\t"] + (HOSTILE_VALUES if self.p.hostile_strings else []))
                vsrc = repr(value)
            elif prim == "int":
                value = rng.choice([0, 1, 42, 2**31 - 1, 2**53])
                vsrc = repr(value)
            elif prim == "float":
                value = rng.choice([0.0, 1.5, 2.25, 1e10, 1e-5])
                vsrc = repr(value)
            elif prim == "bool":
                value = rng.choice([True, False])
                vsrc = repr(value)
            else:
                value = bytes(rng.randrange(256) for _ in range(rng.randint(0, 9)))
                vsrc = repr(value)
            const = GConst(name, f"{name}: {prim} = constant_{prim}(value={vsrc})", "prim", prim)
            const.values = [value]
            # primitive constants have no dependencies: put them anywhere among the sets
            self.m.consts.insert(rng.randint(0, len(self.m.consts)), const)

    # -- constrained primitives ------------------------------------------------
    def gen_cprims(self) -> None:
        rng = self.rng
        for _ in range(self.rint(self.p.n_cprims)):
            name = self.fresh("", True)
            pairs = [
                (a, b) for i, a in enumerate(self.m.cprims) for b in self.m.cprims[i + 1:]
                if a.prim == b.prim and not self._cprim_related(a, b)
            ]
            if pairs and self.p.p_cprim_multi and rng.random() < self.p.p_cprim_multi:
                first, second = rng.choice(pairs)
                if rng.random() < 0.5:
                    first, second = second, first
                cp = GCPrim(name, first.name, first.prim)
                cp.extra_bases.append(second.name)
                self.m.feature("cprim-several-parents")
            elif self.m.cprims and rng.random() < 0.4:
                parent = rng.choice(self.m.cprims)
                cp = GCPrim(name, parent.name, parent.prim)
                self.m.feature("cprim-chain")
            else:
                prims = ["int", "float", "str", "str", "str", "bytearray"]
                if self.p.bool_cprims:
                    prims.append("bool")
                if not self.p.bytes_props:
                    prims = [p for p in prims if p != "bytearray"]
                if not self.p.float_props:
                    prims = [p for p in prims if p != "float"]
                prim = rng.choice(prims)
                cp = GCPrim(name, prim, prim)
            n_inv = rng.choice([0, 1, 1, 2])
            for _ in range(n_inv):
                expr = self.atom("self", T("cprim", cp.name), depth=0, simple=True, prim_override=cp.prim)
                cp.invariants.append((expr, self.description()))
            if rng.random() < self.p.p_docstrings:
                cp.doc = self.docstring()
            self.m.cprims.append(cp)

    def _cprim_ancestors(self, cp: GCPrim) -> List[str]:
        found: List[str] = []
        by_name = {c.name: c for c in self.m.cprims}
        todo = [cp.base] + list(cp.extra_bases)
        while todo:
            name = todo.pop()
            if name in by_name and name not in found:
                found.append(name)
                todo.extend([by_name[name].base] + list(by_name[name].extra_bases))
        return found

    def _cprim_related(self, a: GCPrim, b: GCPrim) -> bool:
        """One is an ancestor of the other (Python refuses such a base list: MRO)."""
        return a.name in self._cprim_ancestors(b) or b.name in self._cprim_ancestors(a)

    # -- classes ---------------------------------------------------------------
    def gen_classes(self) -> None:
        rng = self.rng
        n = self.rint(self.p.n_classes)
        diamond = bool(self.p.p_diamond and n >= 4 and rng.random() < self.p.p_diamond)
        for i in range(n):
            cls = GClass(self.fresh("", True))
            # Only abstract classes and classes may be bases; choose among earlier ones.
            candidates = [c for c in self.m.classes]
            if diamond and i < 4:
                # force a diamond: top <- left, right <- bottom
                cls.bases = [[], [0], [0], [1, 2]][i]
                cls.bases = [self.m.classes[k].name for k in cls.bases]
                if i == 3:
                    self.m.feature("diamond")
            elif candidates and rng.random() < 0.55:
                k = rng.randint(1, min(self.p.max_bases, len(candidates)))
                bases = rng.sample(candidates, k)
                # avoid listing an ancestor together with its descendant (MRO-safe)
                pruned = []
                for b in bases:
                    if not any(b is not o and b.name in self.ancestor_names(o) for o in bases):
                        pruned.append(b)
                cls.bases = [b.name for b in pruned]
                if not self.mro_ok(cls.bases):
                    cls.bases = cls.bases[:1]
                if len(cls.bases) > 1:
                    self.m.feature("multiple-inheritance")
            cls.abstract = rng.random() < self.p.p_abstract
            self.m.classes.append(cls)
        # Bases must be concrete-or-abstract classes; descendants of a concrete class are allowed.
        if self.p.ensure_concrete and all(c.abstract for c in self.m.classes):
            self.m.classes[-1].abstract = False
        if self.p.sdk_safe:
            # every abstract class needs a concrete descendant
            for cls in self.m.classes:
                if cls.abstract and not any(
                    (not d.abstract) and cls.name in self.ancestor_names(d)
                    for d in self.m.classes
                ):
                    cls.abstract = False
        # model type: set at the root of some hierarchies
        for cls in self.m.classes:
            if not cls.bases and rng.random() < self.p.p_model_type:
                cls.with_model_type = True

    def mro_ok(self, bases: List[str]) -> bool:
        """Check with Python itself that the bases admit a linearization."""
        made: Dict[str, type] = {}

        def make(name: str) -> type:
            if name not in made:
                cls = self.by_name(name)
                made[name] = type(name, tuple(make(b) for b in cls.bases) or (object,), {})
            return made[name]

        try:
            type("Probe", tuple(make(b) for b in bases), {})
            return True
        except TypeError:
            return False

    def by_name(self, name: str) -> GClass:
        for c in self.m.classes:
            if c.name == name:
                return c
        raise KeyError(name)

    def ancestor_names(self, cls: GClass) -> List[str]:
        result: List[str] = []
        for b in cls.bases:
            bc = self.by_name(b)
            for a in self.ancestor_names(bc):
                if a not in result:
                    result.append(a)
            if b not in result:
                result.append(b)
        return result

    def random_type(self, cls_index: int) -> T:
        rng = self.rng
        choices = ["prim", "prim"]
        if self.m.cprims:
            choices += ["cprim"]
        if self.m.enums:
            choices += ["enum"]
        if self.p.class_properties and self.m.classes:
            choices += ["cls", "cls"]
        kind = rng.choice(choices)
        if kind == "prim":
            prims = ["bool", "int", "str", "str"]
            if self.p.float_props:
                prims.append("float")
            if self.p.bytes_props:
                prims.append("bytearray")
            base = T("prim", rng.choice(prims))
        elif kind == "cprim":
            base = T("cprim", rng.choice(self.m.cprims).name)
        elif kind == "enum":
            base = T("enum", rng.choice(self.m.enums).name)
        else:
            base = T("cls", rng.choice(self.m.classes).name)
        if rng.random() < self.p.p_list and (
            self.p.list_of_primitives or base.kind not in ("prim",)
        ):
            base = T("list", inner=base)
            if self.p.list_of_lists and rng.random() < 0.2:
                base = T("list", inner=base)
        if rng.random() < self.p.p_optional:
            base = T("optional", inner=base)
        return base

    def gen_class_bodies(self) -> None:
        rng = self.rng
        for idx, cls in enumerate(self.m.classes):
            inherited: List[GProp] = []
            seen = set()
            for anc in self.ancestor_names(cls):
                for prop in self.by_name(anc).props:
                    if prop.name not in seen:
                        seen.add(prop.name)
                        inherited.append(prop)
            n_props = rng.randint(0, self.p.max_props)
            if self.p.sdk_safe and not cls.abstract and not inherited and n_props == 0:
                n_props = 1
            taken = {p.name.lower() for p in inherited}
            # names also must not clash with properties of *descendant-siblings*; we
            # generate top-down, so only ancestors matter, plus diamonds' other branch:
            for other in self.m.classes:
                if other is not cls:
                    taken |= {p.name.lower() for p in other.props}
            for _ in range(n_props):
                name = self.fresh("", False)
                if name.lower() in taken:
                    continue
                taken.add(name.lower())
                prop = GProp(name, self.random_type(idx))
                if rng.random() < self.p.p_docstrings:
                    prop.doc = self.docstring()
                cls.props.append(prop)
            cls.all_props = inherited + cls.props
            # required before optional in constructors: sort own props stably
            cls.props.sort(key=lambda p: p.type.kind == "optional")
            cls.all_props = inherited + cls.props
            if rng.random() < self.p.p_docstrings:
                cls.doc = self.docstring()

    def gen_class_invariants(self) -> None:
        rng = self.rng
        for idx, cls in enumerate(self.m.classes):
            # invariants
            if cls.all_props and rng.random() < self.p.p_invariant:
                for _ in range(rng.randint(1, self.p.max_invariants)):
                    expr = self.bool_expr(cls, self.p.expr_depth)
                    if expr is not None:
                        cls.invariants.append((expr, self.description()))
            # implementation-specific method: X_or_default on an optional prop
            for prop in cls.props:
                if (
                    prop.type.kind == "optional"
                    and prop.type.inner.kind in ("prim", "enum")
                    and rng.random() < self.p.p_impl_method
                ):
                    inner = prop.type.inner
                    if inner.kind == "enum":
                        enum = next(e for e in self.m.enums if e.name == inner.name)
                        default = f"{enum.name}.{enum.literals[0][0]}"
                    else:
                        default = {"bool": "True", "int": "7", "float": "1.5",
                                   "str": '"dflt"', "bytearray": 'bytearray(b"x")'}[inner.name]
                    cls.impl_methods.append(
                        (f"{prop.name}_or_default", inner.src(), f"self.{prop.name} if self.{prop.name} is not None else {default}")
                    )
                    self.m.feature("impl-specific-method")

    # -- mistyped mode (C07) ---------------------------------------------------------
    def add_mistyped_invariant(self) -> None:
        """Add one invariant in which exactly one typing obligation is flipped."""
        rng = self.rng
        self.m.mistyped = []
        classes = [c for c in self.m.classes if c.all_props]
        rng.shuffle(classes)
        for cls in classes:
            made = self.mistyped_expr(cls)
            if made is not None:
                expr, tag = made
                cls.invariants.append((expr, self.description("mistyped")))
                self.m.mistyped.append((cls.name, expr, tag))
                self.m.feature("mistyped/" + tag)
                return

    def mistyped_expr(self, cls: GClass) -> Optional[Tuple[str, str]]:
        rng = self.rng
        props = cls.all_props
        optionals = [p for p in props if p.type.kind == "optional"]
        required = [p for p in props if p.type.kind != "optional"]

        def prim_of(t: T) -> Optional[str]:
            if t.kind == "prim":
                return t.name
            if t.kind == "cprim":
                return next(c.prim for c in self.m.cprims if c.name == t.name)
            return None

        options = []
        if optionals:
            options += ["unguarded", "unguarded", "wrong-branch", "guard-negated", "or-instead-of-and"]
        if len(optionals) >= 2:
            options += ["wrong-guard", "narrowing-after-or"]
        cls_props = [p for p in props if p.type.kind == "cls" or (p.type.kind == "optional" and p.type.inner.kind == "cls")]
        list_cls_props = [
            p for p in props
            if (p.type.kind == "list" and p.type.inner.kind == "cls")
        ]
        if cls_props:
            options += ["nested-optional-member"]
        if list_cls_props:
            options += ["optional-member-in-loop"]
        if required:
            options += ["kind-mismatch", "kind-mismatch"]
        if not options:
            return None
        choice = rng.choice(options)
        depth = 1
        if choice == "unguarded":
            p = rng.choice(optionals)
            return self.atom(f"self.{p.name}", p.type.inner, depth), choice
        if choice == "wrong-branch":
            p = rng.choice(optionals)
            return f"({p_src(p)} is None) and {self.paren(self.atom(p_src(p), p.type.inner, depth))}", choice
        if choice == "guard-negated":
            p = rng.choice(optionals)
            return f"not ({p_src(p)} is None) or {self.paren('True == True')} and ({p_src(p)} is None or True == True) and (({p_src(p)} is not None) or {self.paren(self.atom(p_src(p), p.type.inner, depth))})", choice
        if choice == "or-instead-of-and":
            p = rng.choice(optionals)
            return f"({p_src(p)} is not None) or {self.paren(self.atom(p_src(p), p.type.inner, depth))}", choice
        if choice == "wrong-guard":
            p, q = rng.sample(optionals, 2)
            return f"not ({p_src(q)} is not None) or {self.paren(self.atom(p_src(p), p.type.inner, depth))}", choice
        if choice == "narrowing-after-or":
            p, q = rng.sample(optionals, 2)
            return f"(({p_src(p)} is not None) or ({p_src(q)} is not None)) and {self.paren(self.atom(p_src(p), p.type.inner, depth))}", choice
        if choice == "nested-optional-member":
            p = rng.choice(cls_props)
            inner_t = p.type.inner if p.type.kind == "optional" else p.type
            target = self.by_name(inner_t.name)
            inner_optionals = [q for q in (target.all_props or []) if q.type.kind == "optional"]
            if not inner_optionals:
                return None
            q = rng.choice(inner_optionals)
            body = self.atom(f"self.{p.name}.{q.name}", q.type.inner, 0)
            if p.type.kind == "optional":
                return f"not (self.{p.name} is not None) or {self.paren(body)}", choice
            return body, choice
        if choice == "optional-member-in-loop":
            p = rng.choice(list_cls_props)
            target = self.by_name(p.type.inner.name)
            inner_optionals = [q for q in (target.all_props or []) if q.type.kind == "optional"]
            if not inner_optionals:
                return None
            q = rng.choice(inner_optionals)
            quant = rng.choice(["all", "any"])
            return f"{quant}({self.atom(f'x.{q.name}', q.type.inner, 0)} for x in self.{p.name})", choice
        # kind mismatches: one operand of the wrong kind
        p = rng.choice(required)
        e = f"self.{p.name}"
        prim = prim_of(p.type)
        variants = []
        if prim in ("int", "float", "bool"):
            variants += [(f"len({e}) > 0", "len-of-number"), (f"{e}[0] == 1", "index-on-number"),
                         (f'{e} == "text"', "number-eq-str"), (f'{e} < "a"', "number-lt-str")]
            pats = [f for f in self.m.funcs if f.kind == "pattern"]
            if pats:
                variants.append((f"{rng.choice(pats).name}({e})", "pattern-call-on-number"))
        if prim in ("str", "bytearray"):
            variants += [(f"{e} < 5", "text-lt-int"), (f"{e} > 1.5", "text-gt-float"),
                         (f"{e}.foo == 1", "member-of-primitive"), (f"not {e}", "not-on-text"),
                         (f"{e} and True == True", "and-on-text"), (f"{e}", "non-boolean-body")]
        if p.type.kind == "enum":
            variants += [(f'{e} == "text"', "enum-eq-str"), (f"len({e}) > 1", "len-of-enum"), (f"{e} < 3", "enum-lt-int")]
        if p.type.kind == "list":
            variants += [(f"{e} > 3", "list-gt-int"), (f"{e}.size > 3", "member-of-list"), (f'{e} == "x"', "list-eq-str")]
        if p.type.kind == "cls":
            variants += [(f"len({e}) > 0", "len-of-instance"), (f"{e} > 2", "instance-gt-int"), (f"{e}[0] == 1", "index-on-instance")]
        if not variants:
            return None
        expr, sub = rng.choice(variants)
        return expr, f"kind-mismatch/{sub}"

    def break_required_cycles(self) -> None:
        """Make required class-typed properties optional until every concrete class
        can be instantiated finitely."""
        for _ in range(50):
            ok: set = set()
            changed = True
            while changed:
                changed = False
                for cls in self.m.classes:
                    if cls.abstract or cls.name in ok:
                        continue
                    good = True
                    for prop in cls.all_props:
                        if prop.type.kind == "cls":
                            target = prop.type.name
                            options = [
                                d.name for d in self.m.classes
                                if (d.name == target or target in self.ancestor_names(d))
                                and not d.abstract
                            ]
                            if not any(o in ok for o in options):
                                good = False
                                break
                    if good:
                        ok.add(cls.name)
                        changed = True
            bad = [c for c in self.m.classes if not c.abstract and c.name not in ok]
            if not bad:
                return
            # relax the first offending required reference we can find (own property)
            relaxed = False
            for cls in self.m.classes:
                for prop in cls.props:
                    if prop.type.kind == "cls":
                        target = prop.type.name
                        options = [
                            d.name for d in self.m.classes
                            if (d.name == target or target in self.ancestor_names(d))
                            and not d.abstract
                        ]
                        if not any(o in ok for o in options):
                            prop.type = T("optional", inner=prop.type)
                            relaxed = True
                            self.m.feature("required-cycle-relaxed")
                            break
                if relaxed:
                    break
            if not relaxed:
                return
            for cls in self.m.classes:
                cls.props.sort(key=lambda p: p.type.kind == "optional")
            for cls in self.m.classes:
                inherited = []
                seen = set()
                for anc in self.ancestor_names(cls):
                    for prop in self.by_name(anc).props:
                        if prop.name not in seen:
                            seen.add(prop.name)
                            inherited.append(prop)
                cls.all_props = inherited + cls.props

    def effective_model_type(self, cls: GClass) -> bool:
        return bool(cls.with_model_type) or any(
            self.by_name(a).with_model_type for a in self.ancestor_names(cls)
        )

    def fix_model_types(self) -> None:
        """Classes used as property types that have concrete descendants need a model type."""
        referenced = set()

        def visit(t: T) -> None:
            if t.kind == "cls":
                referenced.add(t.name)
            elif t.inner is not None:
                visit(t.inner)

        for cls in self.m.classes:
            for prop in cls.props:
                visit(prop.type)
        for cls in self.m.classes:
            if cls.name not in referenced:
                continue
            descendants = [
                d for d in self.m.classes
                if cls.name in self.ancestor_names(d) and not d.abstract
            ]
            if descendants and not self.effective_model_type(cls):
                candidates = [cls] + [self.by_name(a) for a in self.ancestor_names(cls)]
                self.rng.choice(candidates).with_model_type = True
                self.m.feature("model-type-forced")

    # -- typed expression grammar -------------------------------------------------
    def atom(self, e: str, t: T, depth: int, simple: bool = False, prim_override: Optional[str] = None) -> str:
        """Boolean expression over the non-optional value expression ``e`` of type ``t``."""
        rng = self.rng
        m = self.m
        prim = None
        if prim_override is not None:
            prim = prim_override
        elif t.kind == "prim":
            prim = t.name
        elif t.kind == "cprim":
            prim = next(c.prim for c in m.cprims if c.name == t.name)
        if prim == "str":
            options = ["len", "len", "eq"]
            pats = [f for f in m.funcs if f.kind in ("pattern", "impl") or (f.kind == "transpilable" and f.args[0][1] == "str")]
            if pats:
                options += ["fn", "fn"]
            sets = [c for c in m.consts if c.kind == "set_str"]
            if sets and not simple:
                options.append("in")
            if self.p.schema_invariants_only:
                options = [o for o in options if o in ("len", "fn", "in")]
                pats = [f for f in m.funcs if f.kind == "pattern"]
                if not pats:
                    options = [o for o in options if o != "fn"]
            choice = rng.choice(options)
            if choice == "len":
                return self.len_cmp(e)
            if choice == "eq" and not simple and rng.random() < 0.3:
                # an interpolated string with literal curly brackets (not a pattern)
                m.feature("fstring-in-invariant")
                template = rng.choice([
                    'f"{{{{{e}}}}}"', 'f"${{{{{e}}}}}"', 'f"x{{{{y}}}}{{{e}}}"', 'f"{{{e}}}-{{{e}}}"', 'f"{{{{}}}}{{{e}}}"',
                ]).format(e=e)
                return f"{e} {rng.choice(['==', '!='])} {template}"
            if choice == "eq":
                m.feature("str-eq")
                return f"{e} {rng.choice(['==', '!='])} {self.str_literal(rng.choice(['ok', '', 'x y', 'bad']))}"
            if choice == "fn":
                fn = rng.choice(pats)
                m.feature(f"call-{fn.kind}")
                return f"{fn.name}({e})"
            const = rng.choice(sets)
            m.feature("in-set-str")
            return f"{e} in {const.name}"
        if prim == "bytearray":
            return self.len_cmp(e)
        if prim == "int":
            k = rng.choice([0, 1, 2, 5, 10, -3, 100])
            op = rng.choice(CMP)
            fns = [f for f in m.funcs if f.kind == "transpilable" and f.args[0][1] == "int"]
            sets = [c for c in m.consts if c.kind == "set_int"]
            r = rng.random()
            if fns and r < 0.2:
                m.feature("call-transpilable")
                return f"{rng.choice(fns).name}({e})"
            if sets and r < 0.3 and not simple:
                m.feature("in-set-int")
                return f"{e} in {rng.choice(sets).name}"
            if r < 0.33 and t.kind == "prim":
                m.feature("arith")
                return f"{e} {rng.choice(['+', '-'])} {rng.randint(1, 3)} {op} {k}"
            if r < 0.45 and t.kind == "prim":
                # nested arithmetic: the grouping matters for subtraction
                m.feature("arith-nested")
                inner = f"({e} {rng.choice(['+', '-'])} {rng.randint(1, 4)})"
                form = rng.choice([
                    "{k2} - {inner}", "{e} - {inner}", "{inner} - {inner2}", "{e} + {inner}",
                    "{k2} - ({k3} - {e})",
                ])
                expr = form.format(k2=rng.randint(0, 9), k3=rng.randint(0, 9), e=e, inner=inner,
                                   inner2=f"({rng.randint(0, 5)} - {e})")
                return f"{expr} {op} {k}"
            if r < 0.7:
                m.feature("cmp-const-left")
                return f"{k} {op} {e}"
            m.feature("cmp-const-right")
            return f"{e} {op} {k}"
        if prim == "float":
            k = rng.choice([0.0, 0.5, 1.0, 10.5, -2.0])
            fns = [f for f in m.funcs if f.kind == "transpilable" and f.args[0][1] == "float"]
            if fns and rng.random() < 0.2:
                return f"{rng.choice(fns).name}({e})"
            return f"{e} {rng.choice(['<', '<=', '>', '>='])} {k}"
        if prim == "bool":
            m.feature("bool-atom")
            return rng.choice([f"{e}", f"not {e}", f"{e} == True", f"{e} == False"])
        if t.kind == "enum":
            enum = next(x for x in m.enums if x.name == t.name)
            sets = [c for c in m.consts if c.kind == "set_enum" and c.elem == enum.name]
            if sets and rng.random() < 0.4:
                m.feature("in-set-enum")
                return f"{e} in {rng.choice(sets).name}"
            lit = rng.choice(enum.literals)[0]
            m.feature("enum-eq")
            return f"{e} {rng.choice(['==', '!='])} {enum.name}.{lit}"
        if t.kind == "cls":
            cls = self.by_name(t.name)
            props = getattr(cls, "all_props", None) or []
            if not props or depth <= 0 or not self.p.nested_member:
                # nothing to say about the nested object besides its presence
                return f"{e} is not None" if False else "True == True"
            prop = rng.choice(props)
            m.feature("nested-member")
            return self.on_value(f"{e}.{prop.name}", prop.type, depth - 1)
        if t.kind == "list":
            options = ["len", "len"]
            if self.p.any_all and depth > 0:
                options += ["all", "any", "range", "first"]
            if self.p.schema_invariants_only:
                options = ["len"]
            choice = rng.choice(options)
            if choice == "len":
                return self.len_cmp(e)
            var = rng.choice(["x", "y", "it"]) + str(depth)
            inner = t.inner
            if choice in ("all", "any"):
                m.feature(f"{choice}-over-list")
                return f"{choice}({self.atom(var, inner, depth - 1)} for {var} in {e})"
            if choice == "range":
                m.feature("all-over-range")
                idx = "i" + str(depth)
                return f"all({self.atom(f'{e}[{idx}]', inner, depth - 1)} for {idx} in range(0, len({e})))"
            m.feature("index")
            return f"len({e}) == 0 or {self.paren(self.atom(f'{e}[0]', inner, depth - 1))}"
        raise AssertionError(t.kind)

    def len_cmp(self, e: str) -> str:
        rng = self.rng
        k = rng.choice([0, 1, 1, 2, 3, 5, 8, 20])
        op = rng.choice(["<", "<=", "==", ">", ">=", ">=", "<="])
        if self.p.schema_invariants_only and op == ">" and k == 0 and rng.random() < 0.5:
            k = 1
        if rng.random() < 0.3:
            self.m.feature("len-const-left")
            return f"{k} {op} len({e})"
        self.m.feature("len-const-right")
        return f"len({e}) {op} {k}"

    def paren(self, expr: str) -> str:
        return f"({expr})"

    def on_value(self, e: str, t: T, depth: int) -> str:
        """Boolean expression over the possibly optional value expression ``e``."""
        rng = self.rng
        if t.kind == "optional":
            r = rng.random()
            if r < 0.12:
                self.m.feature("is-none")
                return f"{e} is None"
            if r < 0.24:
                self.m.feature("is-not-none")
                return f"{e} is not None"
            inner = self.paren(self.atom(e, t.inner, depth))
            if r < 0.55:
                self.m.feature("implication-guard")
                return f"not ({e} is not None) or {inner}"
            if r < 0.8:
                self.m.feature("is-none-or")
                return f"({e} is None) or {inner}"
            self.m.feature("is-not-none-and")
            return f"({e} is not None) and {inner}"
        return self.atom(e, t, depth)

    def bool_expr(self, cls: GClass, depth: int) -> Optional[str]:
        rng = self.rng
        props = cls.all_props
        if not props:
            return None

        def leaf() -> str:
            prop = rng.choice(props)
            return self.on_value(f"self.{prop.name}", prop.type, depth)

        if self.p.schema_invariants_only:
            return leaf()
        r = rng.random()
        if self.p.p_cmp_of_cmp and rng.random() < self.p.p_cmp_of_cmp:
            made = self.cmp_of_cmp(cls)
            if made is not None:
                return made
        if r < 0.55 or depth <= 0:
            return leaf()
        a, b = self.paren(leaf()), self.paren(leaf())
        if r < 0.7:
            self.m.feature("and")
            return f"{a} and {b}"
        if r < 0.8:
            self.m.feature("or")
            return f"{a} or {b}"
        if r < 0.9:
            self.m.feature("implication")
            return f"not {a} or {b}"
        self.m.feature("not")
        return f"not {a}"

    def cmp_of_cmp(self, cls: GClass) -> Optional[str]:
        """``(a < b) == flag`` / ``(a < b) != (c >= d)``: the grouping decides the verdict."""
        rng = self.rng

        def plain(t: T) -> Optional[str]:
            if t.kind == "prim":
                return t.name
            return "list" if t.kind == "list" else None

        props = [(p, plain(p.type)) for p in cls.all_props]
        flags = [p for p, k in props if k == "bool"]
        others = [(p, k) for p, k in props if k in ("int", "str", "bytearray", "list")]
        if not others:
            return None

        def comparison() -> str:
            p, k = rng.choice(others)
            if k == "int":
                return f"self.{p.name} {rng.choice(CMP)} {rng.choice([0, 1, 2, 5])}"
            return self.len_cmp(f"self.{p.name}")

        op = rng.choice(["==", "!="])
        self.m.feature("comparison-of-comparison")
        if flags and rng.random() < 0.6:
            flag = f"self.{rng.choice(flags).name}"
            if rng.random() < 0.5:
                return f"({comparison()}) {op} {flag}"
            return f"{flag} {op} ({comparison()})"
        return f"({comparison()}) {op} ({comparison()})"

    # -- rendering -------------------------------------------------------------------
    def render(self) -> str:
        m = self.m
        out: List[str] = [IMPORTS, ""]
        for fn in m.funcs:
            out.append("@verification")
            if fn.kind == "impl":
                out.append("@implementation_specific")
            args = ", ".join(f"{n}: {t}" for n, t in fn.args)
            out.append(f"def {fn.name}({args}) -> bool:")
            out.append(f'    """Check the {fn.args[0][0]} somehow."""')
            out.append(fn.body)
            out.append("")
            out.append("")
        for enum in m.enums:
            out.append(f"class {enum.name}(Enum):")
            if enum.doc:
                out.append(f'    """{enum.doc}"""')
                out.append("")
            for lit, value in enum.literals:
                out.append(f"    {lit} = {self.str_literal(value)}")
            out.append("")
            out.append("")
        for const in m.consts:
            out.append(const.src)
            out.append("")
        for cp in m.cprims:
            for expr, desc in cp.invariants:
                out.append(f"@invariant(lambda self: {expr}, {self.str_literal(desc)})")
            out.append(f"class {cp.name}({', '.join([cp.base] + list(cp.extra_bases))}, DBC):")
            out.append(f'    """{cp.doc}"""' if cp.doc else "    pass")
            out.append("")
            out.append("")
        order = self.topological_order()
        for cls in order:
            for expr, desc in cls.invariants:
                out.append(f"@invariant(lambda self: {expr}, {self.str_literal(desc)})")
            if cls.abstract:
                out.append("@abstract")
            if cls.with_model_type:
                out.append("@serialization(with_model_type=True)")
            bases = ", ".join(cls.bases + ["DBC"]) if self.rng.random() < 0.7 or not cls.bases else ", ".join(cls.bases)
            out.append(f"class {cls.name}({bases}):")
            body: List[str] = []
            if cls.doc:
                body.append(f'    """{cls.doc}"""')
                body.append("")
            for prop in cls.props:
                body.append(f"    {prop.name}: {prop.type.src()}")
                if prop.doc:
                    body.append(f'    """{prop.doc}"""')
                body.append("")
            for name, ret, expr in cls.impl_methods:
                body.append("    @implementation_specific")
                body.append("    @non_mutating")
                body.append(f"    def {name}(self) -> {ret}:")
                body.append(f"        return {expr}")
                body.append("")
            if cls.all_props:
                body.extend(self.render_init(cls))
            if not body:
                body.append("    pass")
            out.extend(body)
            out.append("")
            out.append("")
        out.append('__version__ = "V0.1"')
        out.append('__xml_namespace__ = "https://dummy.com/gen"')
        out.append("")
        return "\n".join(out)

    def topological_order(self) -> List[GClass]:
        # classes were generated parents-first; produce a random topological order
        remaining = list(self.m.classes)
        placed: List[GClass] = []
        names = set()
        while remaining:
            ready = [c for c in remaining if all(b in names for b in c.bases)]
            pick = self.rng.choice(ready)
            placed.append(pick)
            names.add(pick.name)
            remaining.remove(pick)
        return placed

    def render_init(self, cls: GClass) -> List[str]:
        rng = self.rng
        # required arguments first, then optional ones (Python demands defaults last)
        props = list(cls.all_props)
        required = [p for p in props if p.type.kind != "optional"]
        optional = [p for p in props if p.type.kind == "optional"]
        lines = ["    def __init__("]
        lines.append("        self,")
        for p in required:
            lines.append(f"        {p.name}: {p.type.src()},")
        for p in optional:
            lines.append(f"        {p.name}: {p.type.src()} = None,")
        lines.append("    ) -> None:")
        # Inherited properties must be set through the super constructors (the front
        # end rejects direct assignment of a property the class does not declare).
        body: List[str] = []
        for base in cls.bases:
            bc = self.by_name(base)
            bprops = [p.name for p in bc.all_props]
            if not bprops:
                continue
            body.append(
                f"        {base}.__init__(self, "
                + ", ".join(f"{n}={n}" for n in bprops)
                + ")"
            )
        for p in cls.props:
            body.append(f"        self.{p.name} = {p.name}")
        if not body:
            body.append("        pass")
        return lines + body + [""]


def p_src(p: "GProp") -> str:
    return f"self.{p.name}"


RESERVED = {
    "type", "class", "self", "none", "true", "false", "list", "set", "str", "int",
    "float", "bool", "bytearray", "path", "descend", "accept", "transform", "match",
    "value", "values", "name", "kind", "range", "index", "count", "text", "size", "code",
    "data", "label", "state", "title", "token", "mark", "unit", "part", "node", "entry",
    "flag", "level", "item", "items", "shape", "zone", "width", "score", "alpha", "beta",
    "gamma", "delta", "error", "errors", "len", "all", "any", "model_type", "modeltype",
}
# Single bare words are avoided altogether (many collide with target-language
# keywords or helper names); generated names have >= 2 words or a prefix.
NASTY_DOC = ['"quoted"', "'single'", "*/", "//", "</summary>", "&amp;", "<b>", "a < b", "{@link x}", "${x}", "`tick`", "%d", "\\\\n"]


def generate(rng: random.Random, profile: Optional[Profile] = None) -> Model:
    return Generator(rng, profile).generate()


def shuffle_class_order(text: str, rng: random.Random) -> str:
    """
    Permute the definitions of the enumerations and constrained primitives of a
    meta-model text among themselves, leaving everything else in place.

    The front end resolves bases and property types by name, so the permuted text
    denotes the same meta-model even though it is no longer executable Python as it
    stands (:mod:`vf.pyexec` re-orders bases first before executing).
    """
    import ast

    from vf import pyexec

    tree = ast.parse(text)
    lines = text.splitlines(keepends=True)
    pm = pyexec.PyModel(text, execute=False)
    blocks = []  # (start, end) 0-based line ranges of ClassDef statements incl. decorators
    for node in tree.body:
        # Only enumerations and constrained primitives are permuted: for classes with
        # constructors the pinned front end demands the bases first (it reports inherited
        # properties as uninitialised otherwise), and a base defined later is not Python.
        if isinstance(node, ast.ClassDef) and (pm.is_enum(node.name) or pm.is_constrained_primitive(node.name)):
            start = min([node.lineno] + [d.lineno for d in node.decorator_list]) - 1
            blocks.append((start, node.end_lineno))
    if len(blocks) < 2:
        return text
    texts = ["".join(lines[a:b]) for a, b in blocks]
    order = list(range(len(blocks)))
    rng.shuffle(order)
    out = []
    cursor = 0
    for k, (a, b) in enumerate(blocks):
        out.append("".join(lines[cursor:a]))
        chunk = texts[order[k]]
        out.append(chunk if chunk.endswith("\n") else chunk + "\n")
        cursor = b
    out.append("".join(lines[cursor:]))
    return "".join(out)
