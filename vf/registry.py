"""Single table from which MANIFEST.json is produced (tools/mkmanifest.py)."""
import json
import pathlib

ROOT = pathlib.Path(__file__).resolve().parent.parent

ALL_IDS = [f"C{i:02d}" for i in range(1, 31)]

# id -> dict(category, text, note, technique, design_ref)
CHECKS = {
    "C27": dict(
        category="exploration",
        technique="post-condition monitor on the real wrap_text_into_lines under fuzzed texts/widths and during real generation",
        text="Runtime post-condition monitor (text preserved, over-long segments are single units, no dangling article) observed on tens of thousands (quick) to ~600k (thorough) calls including the descriptions wrapped during real generator runs.",
        note="Over-long 'article word' units are accepted (indivisible under the article rule). Finite sampling of texts/widths.",
    ),
}

# Properties not (yet) claimed: id -> reason.
NOT_CLAIMED_REASON = "check not built yet in this snapshot of /verif (runtime monitor planned in DESIGN.md section 3)"


def manifest() -> dict:
    checks = []
    for pid in ALL_IDS:
        if pid not in CHECKS:
            continue
        c = CHECKS[pid]
        entry = {
            "property_id": pid,
            "quick_cmd": f"/venv/bin/python -m vf.run {pid} --tier quick",
            "thorough_cmd": f"/venv/bin/python -m vf.run {pid} --tier thorough",
            "evidence_file": f"/verif/evidence/{pid}.json",
            "replay_cmd_template": f"/venv/bin/python -m vf.run {pid} --replay {{path}}",
            "engine": "vf",
            "level_claimed": {
                "category": c["category"],
                "text": c["text"],
                "design_ref": f"DESIGN.md section 3, {pid}",
            },
            "level_note": c["note"],
            "technique": c["technique"],
        }
        checks.append(entry)
    not_applicable = [
        {"property_id": pid, "reason": NOT_CLAIMED_REASON}
        for pid in ALL_IDS
        if pid not in CHECKS
    ]
    return {
        "version": 1,
        "setup_cmd": "/venv/bin/python -m vf.setup",
        "hooks": {
            "guard": "AAS_CORE_CODEGEN_VERIF",
            "enable": "No source hooks: monitors are installed from the harness (monkey-patched module attributes, audit hooks, sys.monitoring); checks import aas_core_codegen from /repo's working tree (editable install) and set AAS_CORE_CODEGEN_VERIF=1.",
            "baseline_off_cmd": "cd /repo && env -u AAS_CORE_CODEGEN_VERIF TMPDIR=$(mktemp -d) /venv/bin/python -m pytest -ra -q -p no:cacheprovider --timeout=900 --continue-on-collection-errors",
            "source_commits": [],
            "add_only": True,
        },
        "engines": [
            {
                "name": "vf",
                "path": "/verif/vf",
                "serves_properties": sorted(CHECKS),
                "kind_free_text": "Python runtime-monitoring harness: workload generators, monitors hooked onto the real functions, differential oracles executing the meta-model as Python, independent validators, event-log checkers.",
            }
        ],
        "checks": checks,
        "notes": "Every check runs the real code of /repo under generated workloads while monitors observe the executions; verdicts are held-on-observed (0), violated (1), inconclusive (2), harness error (3). Known genuine defects are listed in known_findings.json by mechanism.",
        "not_applicable": not_applicable,
    }
