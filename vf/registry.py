"""Single table from which MANIFEST.json is produced (tools/mkmanifest.py)."""
import json
import pathlib

ROOT = pathlib.Path(__file__).resolve().parent.parent

ALL_IDS = [f"C{i:02d}" for i in range(1, 31)]

# id -> dict(category, text, note, technique, design_ref)
CHECKS = {
    "C01": dict(
        category="exploration",
        technique="BaseException net around the real run.load_model / main.execute / CLI (both forms) under 1-3 stacked text+AST mutations of the fixture models and ~8 400 targeted cases; crash mechanism = class@innermost repo function|contract text",
        text="3-6k (quick) to ~130k (thorough) texts; oracle: (symbol table, None) xor (None, non-empty report), rc 0/1, rc 1 with non-empty stderr for rejected models, no traceback on the CLI.",
        note="Finite sampling with a long tail of rare crash sites; generator crashes on accepted models are counted for C02; 14 front-end crash sites that need new verification rules are listed in known_findings.json.",
    ),
    "C04": dict(
        category="exploration",
        technique="wrapper on LinenoColumner.error_message (every nested located error) + independent offset->(line, column) conversion + positions derived from ast attributes only",
        text="1.5-5k (quick) / 70-80k (thorough) located errors; 11 layout transformations put constructs on first/later lines, indented, after multi-line strings/non-ASCII/comments, inside multi-line statements; each recorded prefix is re-found in stderr.",
        note="Decorated definitions may be located at their first '@', multi-line nodes at column 1; CR/CRLF are invisible to the front end (universal newlines).",
    ),
    "C02": dict(
        category="exploration",
        technique="BaseException net around the real main.execute / smoke.execute for accepted models x 8 targets + smoke; crash mechanisms keyed by exception class, innermost repo function and normalised contract text",
        text="Every fixture model, generated models (incl. shapes the statement names: no concrete class, empty classes, lists of lists/primitives, zero-admitting and crossing length bounds, mid-pattern anchors) and lightly mutated accepted models are run through all eight generators and the smoke tool in-process with complete snippet directories; any escaping exception, a non-int return, exit 0 without output or non-zero exit with empty stderr is a violation.",
        note="The pinned tree crashes at ~28 generator sites (unimplemented cases); they are listed one by one in known_findings.json by mechanism, any other site is reported.",
    ),
    "C03": dict(
        category="exploration",
        technique="exit-status/stdout/stderr contract monitor around the real main.execute and CLI subprocesses, report-grammar parser, wrapper on run.write_error_report, injected-vs-reported error conservation",
        text="Hundreds (quick) to thousands (thorough) of in-process runs over fixtures, generated, mutated and conservation models (k independent defects of one kind in k classes) across all eight targets plus real CLI runs for argument errors and both CLI forms; rc==0 iff stderr empty, success line, report grammar, helper-rendered reports reach stderr verbatim, every injected defect is named in the report.",
        note="One-line argument-error messages are accepted; crashes are left to C01/C02; conservation covers the seven defect kinds for which the pinned front end collects errors.",
    ),
    "C05": dict(
        category="exploration",
        technique="walk of the real symbol table vs independent ast-only reference of the class DAG (differential monitor)",
        text="The symbol table returned by the real front end is compared, for hundreds (quick) to thousands (thorough) of generated class DAGs with diamonds, multiple inheritance, constrained-primitive chains and model-type markers, with an independent reference computed from the source by Python's ast only: ancestor/descendant sets without duplicates, member stacking order, constructor in-lining, interfaces, topological order, model-type propagation.",
        note="Reference front end (vf/pyexec.py) is trusted; order inside one declaring class is not judged; finite sampling of DAG shapes.",
    ),
    "C06": dict(
        category="exploration",
        technique="single-rule mutation of accepted models judged by the real front end; unmutated and benign twins as false-rejection controls",
        text="26 mutators, one per structural rule of the statement, are applied to accepted generated and fixture models; each mutated model must be rejected by run.load_model, while the unparsed original and a benign twin of the same edit shape must be accepted.",
        note="A crash on a mutated model is left to C01; which message is reported is not judged.",
    ),
    "C07": dict(
        category="exploration",
        technique="execution of the meta-model's own invariant lambdas (Python semantics) on type-conforming instances for models the real type checker accepts, with one typing obligation flipped per model",
        text="Hundreds (quick) to thousands (thorough) of models carry one deliberately mistyped invariant (15 mistyping kinds); for those the real front end and type inference accept, every invariant is executed by Python on type-conforming instances (None wherever Optional) and must return a bool or raise IndexError only. Failures are classified by whether None is involved and where; the rejected ones are counted as evidence that the monitor exercises the checker.",
        note="'Accepts' = load_model succeeds and the Python generator (which runs type inference on every invariant) exits 0. Kind-mismatch acceptance is upstream design and listed per kind in known_findings.json; any other None-dereference is a violation.",
    ),
    "C08": dict(
        category="exploration",
        technique="differential runtime oracle: generated verification.verify vs Python evaluation of the source lambdas on the same instances",
        text="Generated Python SDKs are imported in-process; on generated instances (many invariants failing singly and in combination) the multiset of (path, description) errors from verify() is compared with direct evaluation of the meta-model's own lambdas by Python (E4); pattern/transpilable functions are compared value-for-value.",
        note="Python itself is the reference semantics; instances are built through the generated constructors; invariants in shapes the generator rejects are skipped (counted).",
    ),
    "C09": dict(
        category="exploration",
        technique="cross-SDK differential: one generated driver per language and model, run with node 22 (type transform), javac/java and g++ with ASan/UBSan, against the imported Python SDK as reference",
        text="Per model the four SDKs are generated by the real generators; the same abstract instances (half invariant-satisfying, half arbitrary) and mutated JSON documents are fed to each driver; (path, cause) multisets, re-serialised JSON, accept/reject of mutated documents, constant and enum tables must agree with the Python SDK; zero sanitizer reports for C++.",
        note="Java and C++ cannot do lists of non-classes (workload restricted accordingly); C++ has no JSON leg (nlohmann/json.hpp absent): instances are built by constructor code; ints within +-2^53, finite floats; 27 genuine cross-SDK differences of the pinned generators are listed in known_findings.json (golden outputs forbid repair).",
    ),
    "C10": dict(
        category="exploration",
        technique="round-trip monitor and exception-class monitor on the generated (de)serialisers under hostile values and mutated documents",
        text="Instances with hostile values are serialised by the generated SDK to JSON and XML and read back, compared field by field; thousands of structurally mutated JSON value trees and XML texts are fed to the de-serialisers, which may only succeed or raise the SDK's DeserializationException.",
        note="XML round trip judged only for XML-1.0-representable text; float equality by == / nan; genuine defects of the pinned generated code are listed in known_findings.json (golden outputs forbid repair).",
    ),
    "C28": dict(
        category="exploration",
        technique="differential monitor: real smoke.main.execute vs its components run independently on the same text, plus recorded-expectation replay",
        text="Fixtures (accepted and rejected at every stage), generated models with mistyped invariants and schema-inference conflicts and text-mutated models: the smoke exit status must be 0 exactly when load_model, infer_constraints_by_class and the C# types/verification generation all succeed; failing reports are non-empty and name the model path; the five recorded smoke cases must reproduce expected_stderr.txt up to the path.",
        note="Component re-run uses the same dummy-snippet convention as the smoke tool; crashes are left to C01/C02; main.execute(csharp/jsonschema) used only for one-directional cross-checks.",
    ),
    "C29": dict(
        category="exploration",
        technique="identity-comparing monitor on descend/descend_once, recording visitors/transformers, accessor comparison against Python evaluation",
        text="On generated instance graphs, descend_once/descend are compared by object identity with the abstract tree (property order from the real symbol table); dynamically generated recording visitors/transformers (plain and with context) must be dispatched exactly once to the method of the concrete class; over_X_or_empty and X_or_default are compared with the value Python computes from the meta-model.",
        note="X_or_default bodies come from harness snippets derived from the reference body in the meta-model; constructor defaults ([] / enum literal) are not generated by MMG yet.",
    ),
    "C30": dict(
        category="exploration",
        technique="differential monitor: generated constants/enums/stringification vs values Python computes from the source",
        text="Every constant, constant set (incl. superset_of chains, sets of enum literals) and enumeration of generated models is compared with the value obtained by executing the meta-model source with shim markers; <enum>_from_str is probed on literal values and neighbouring texts.",
        note="constant_bytearray cannot be written in the accepted subset (ast.Constant never holds a bytearray) and is therefore not exercised.",
    ),
    "C11": dict(
        category="exploration",
        technique="real jsonschema target output judged by an independent validator (jsonschema Draft 2019-09, pattern on UTF-16 code units via Python re, node non-u RegExp cross-check) against SDK-serialised documents of instances on which Python evaluates every invariant to True; strict JSON parse, check_schema, own $ref resolution",
        text="About 130 (quick) / 300+ (thorough) schemas from the schema-oriented MMG plus all corpus fixtures; 1-30k documents with values on the inferred bounds, astral pattern values, polymorphic nesting.",
        note="Models on which the generators error or crash are counted and skipped; known findings: byte bounds applied to the base64 text, '.'/complemented sets vs astral characters.",
    ),
    "C12": dict(
        category="exploration",
        technique="single-violation twins of valid SDK documents (length min-1/max+1, string outside one pattern, list one too short/long; missing required property, missing/wrong modelType, mistyped value) judged by the independent validator; expected constraints from an independent recogniser over the meta-model, each twin confirmed by Python to break its invariant",
        text="0.5-0.9k (quick) / 30k (thorough) constraint twins plus 2.4-4.6k (quick) / 176k (thorough) structural twins; keys carry kind, value kind, origin and guard form.",
        note="Excluded per the statement: byte twins whose base64 length stays expressible, item-level tightenings by descendants; known finding: bytes minLength on base64 text.",
    ),
    "C13": dict(
        category="exploration",
        technique="independent XSD 1.0 and 1.1 processors (xmlschema, xmllint as second opinion) over real schema.xsd files and SDK-written documents, plus differential pattern sampling Python re vs emitted xs:pattern, plus W3C escape-grammar scan",
        text="Generated and corpus models through the real xsd target; the schema must build in both processors; every SDK document of an invariant-satisfying instance must validate; every sampled member string of a pattern must be accepted by the emitted facet.",
        note="XML characters without line breaks; validator limits on escaped range starts are not judged; refusals count only for the pattern translation; known findings: \\xHH un-escaping before parsing, escapes XSD lacks, lazy quantifiers, diamonds.",
    ),
    "C14": dict(
        category="exploration",
        technique="single-violation twins of valid SDK-written XML documents (value twins recomputed from the meta-model by ast and confirmed by Python evaluation; structural twins unknown / misplaced / missing / duplicated element) under both XSD processors",
        text="880-4 000 value twins and 1 000-3 400 structural twins (quick), ~89k and ~45k (thorough); twins must be invalid under XSD 1.0 and 1.1 validators.",
        note="Expectations only for own-class and constrained-primitive forms len(self.p) <op> K, K <op> len(self.p), matches_x(self.p) with a same-property guard; descendants' tightenings, set and numeric invariants are excluded.",
    ),
    "C15": dict(
        category="exploration",
        technique="differential runtime oracle: real infer_for_schema.infer_constraints_by_class on the real symbol table vs Python's own evaluation of each recognised invariant sub-expression on shadow values of every length / every literal; second monitor on tightening_steps; error-justification monitor",
        text="Hundreds (quick) to ~10 000 (thorough) generated bounds-mode models plus 17 pinned ones: chains, diamonds, constrained-primitive chains, all comparison operators in both operand orders with guards, pattern calls, constant-set membership with superset_of, ~25 unrecognised shapes; every slot's inferred range, pattern set and literal set must admit exactly what the recognised invariants admit; unsatisfiable combinations must be returned as errors; any raise is a violation.",
        note="Recognised shapes are those documented in infer_for_schema docstrings; pattern lists compared as sets of strings; error wording not judged.",
    ),
    "C16": dict(
        category="exploration",
        technique="seeded grammar-aware regex fuzzer against the real retree.parse/render; differential oracle Python re (original vs rendering on strings from both languages, one-edit neighbours, all range boundaries) plus parse(render) dump equality and error-position check",
        text="About 1.2-8k patterns x 40 strings (quick), 20-35k in the thorough budget (240k cap), 8 forked workers; subset walk, near-miss spellings, text mutants of corpus patterns, hostile soups, f-string splices at arbitrary cuts; mechanisms named by crash site, by Python's own parse-tree difference, or by an explain-away test.",
        note="Python 3.12 re is the reference; semantics judged only when Python accepts the original; finite sampling.",
    ),
    "C17": dict(
        category="exploration",
        technique="monitor on the real jsonschema.main.fix_pattern_for_utf16; original on the string vs rewriting on UTF-16 code units (Python re x3 semantics, node RegExp without u for a batched sample); systematic enumeration of edge code points plus astral-rich fuzzing",
        text="About 0.8-2.4k rewrites x 60 strings (quick), 34k x 120 (thorough); 17 edge code points x 3 shapes enumerated systematically; delta-minimised naming of non-limitation disagreements.",
        note="Well-formed subject strings only; '.', complemented sets and lone surrogates on astral strings are a documented limitation listed in known_findings.json; node leg excludes strings with line terminators.",
    ),
    "C18": dict(
        category="exploration",
        technique="three-way differential execution: intermediate.revm.translate programs run by a reference Pike VM written from the instruction docstrings, and the real generated pattern.cpp/revm.cpp compiled with ASan+UBSan in UTF-32 and UTF-16 variants, against Python re.fullmatch; non-termination judged by a function-entry step counter",
        text="Anchored patterns (fixed list, 62 shipped patterns incl. v3, grammar generator with nesting/quantifiers/astral sets) x 40-100 strings each: ~12k (quick) / ~125k (thorough) evaluations by the reference VM and ~11k / ~110k by the generated C++ matcher; programs checked structurally (targets, final match, epsilon-cycles).",
        note="Finite sampling; strings <= 14 chars without line breaks; UTF-16 comparison only where a UTF-16 engine can agree with code points; C++ leg needs g++ (else decided by the reference VM alone, stated in evidence).",
    ),
    "C19": dict(
        category="exploration",
        technique="differential read-back: real literal helpers of all six targets on hostile values; emitted literals compiled/evaluated by Python, g++ (ASan/UBSan), javac/java, node; spec-derived decoders for C#/Go",
        text="Every code point 0..0x17f alone, every special character x hex/other neighbours, escape look-alikes and random strings and bytes through every helper/mode incl. f-string/template composition; ~60-110k read-backs quick, ~1.4M thorough.",
        note="C#/Go judged by spec decoders (no toolchain); narrow C++ literal judged on ASCII only (its precondition); needs_escaping judged only in the False direction.",
    ),
    "C20": dict(
        category="exploration",
        technique="one hostile payload per category of text-bearing places (all docutils constructs the front end dispatches on) x 8 targets; every generated file to an independent parser (CPython ast, javac parser, node type transform + V8 module compile, g++ -fsyntax-only/-E, json, expat, spec-derived C#/Go lexers, expat over C# doc comments) with payload-free baseline subtraction",
        text="About 230 (quick) / 1 700 (thorough) variants planned, each planting one payload (comment/quote terminators, escapes, line separators ...) into descriptions, invariant messages, constants or enum values; thousands of generated files are parsed per language.",
        note="C#/Go judged by lexers only (no toolchain); C++ counts only lexical and 'expected ...' diagnostics; jsonization.cpp and tests are only preprocessed; known finding: Unicode line separators in string values.",
    ),
    "C21": dict(
        category="exploration",
        technique="near-collision model vs renamed control, differential declaration counts per scope (ast, duplicate-key JSON, XSD tables, token-stream scanners for C#/Go/TS/Java/C++) plus javac attribution, g++ and V8 as redefinition detectors; absolute duplicate check on the collision-free control",
        text="133 (quick) / ~230 (thorough) scenarios x 8 targets: pairs of types, properties, methods, literals, constants, functions differing only in case/underscores or colliding with derived names; either the run reports a collision (exit != 0) or no scope declares one name twice.",
        note="Collisions with fixed SDK helper names are out of scope; module-level names (constants, functions, derived names) are never collision-checked by the pinned generators: listed in known_findings.json.",
    ),
    "C22": dict(
        category="exploration",
        technique="differential repeated real CLI subprocess runs vs a reference under varied PYTHONHASHSEED, output-directory history, snippet creation order, shuffled directory listings (sitecustomize shim) and cold/warm model cache",
        text="Quick about 20 (model, target) groups x 4 variants, thorough v3 x 8 targets plus 64 small and about 66 corpus groups; exit status, stdout and stderr modulo paths and every output byte are compared with the reference run.",
        note="Addresses masked only inside tracebacks; foreign files may remain in a pre-populated output directory; heavy machine load gives inconclusive, never held.",
    ),
    "C23": dict(
        category="exploration",
        technique="audit-hook event log (open/rename/remove/mkdir via sitecustomize) of real CLI subprocess histories + output/stdout/stderr differential between plain, cold-cache and warm-cache runs + pickle round-trip equivalence of the symbol table",
        text="Histories [plain], [plain, plain], [cached cold, cached warm, plain], [cached, edit, cached], [A, B, A], failing models, several targets; without the flag no path under the cache directory may be touched and all writes lie under --output_dir; with it outputs equal the plain run; an unpickled symbol table must dump equal and drive all 8 generators to byte-identical output.",
        note="Interpreter-internal writes excluded via PYTHONDONTWRITEBYTECODE; each CLI start costs seconds, so quick runs few histories.",
    ),
    "C24": dict(
        category="fault_enumeration",
        technique="token-passing scheduler over real worker processes running the real run.load_model(cache_model=True); every file-system step seen by an audit hook / os.stat / chunked pickle.dump / close is a scheduling and crash point; crash x {kill, OSError, KeyboardInterrupt} at every step with follow-up runs; DFS over all interleavings of 2 writers, preemption-bounded and sampled for 3 workers / two models; CLI stress with slow chunked writes",
        text="Every step of the traced cold and warm cache protocol is crashed or failed and two follow-up runs are judged; the complete schedule tree of two concurrent writers (thorough, ~22k schedules) and bounded/sampled trees of three workers are executed on real processes; each pickle.load is checked by sha256 against the complete dumps written in that history.",
        note="exhaustive=true only when all crash jobs and all tree shards finished; a crash is os._exit (no fsync/power-loss model); a lock-based protocol would show as inconclusive (watchdog), not as a violation.",
    ),
    "C25": dict(
        category="exploration",
        technique="post-call monitor on the real specific_implementations.read_from_directory (direct and inside main.execute) vs an independent os.walk expectation on generated directory trees",
        text="About 6k (quick) to 60k (thorough) trees with nesting 0-4, valid, invalid and hidden names, hidden directories, symlinks, and empty, blank, CRLF, BOM, NUL, large and invalid-UTF-8 contents; the mapping must equal the walk, each offending file must be named in an error, no exception may escape, and main.execute must exit 1 with a report.",
        note="Accepts verbatim or universal-newline text; key validity from the documented format; symlinks to regular files count as files.",
    ),
    "C26": dict(
        category="exploration",
        technique="bounded-exhaustive enumeration of flow shapes x prefix tree of condition-outcome sequences; differential execution of a structured generator interpreter vs a resumable state machine over the real linearize_to_subroutines output; second leg compiles generate_execute_body output with g++ ASan/UBSan and compares per-call traces",
        text="All flows <=5 nodes/nesting <=2 (quick, 151k) or <=5 nodes/nesting <=3 (thorough, 289k, then size 6 as far as the budget allows) plus seeded random flows up to 30 nodes, each under all outcome sequences up to length 5-6 and random longer ones: millions of trace comparisons, static label/target checks per flow, 10k-38k sanitised C++ traces.",
        note="Bounded: larger or deeper flows are only sampled; outcomes are scripted by one tape with loop-terminating defaults. exhaustive:true only for the completed bound recorded in evidence.",
    ),
    "C27": dict(
        category="exploration",
        technique="post-condition monitor on the real wrap_text_into_lines under fuzzed texts/widths and during real generation",
        text="Runtime post-condition monitor (text preserved, over-long segments are single units, no dangling article) observed on tens of thousands (quick) to ~600k (thorough) calls including the descriptions wrapped during real generator runs.",
        note="Over-long 'article word' units are accepted (indivisible under the article rule). Finite sampling of texts/widths.",
    ),
}

# Properties not (yet) claimed: id -> reason.
NOT_CLAIMED_REASON = "check not built yet in this snapshot of /verif (runtime monitor planned in DESIGN.md section 3)"


def manifest() -> dict:
    checks = []
    for pid in ALL_IDS:
        if pid not in CHECKS:
            continue
        c = CHECKS[pid]
        entry = {
            "property_id": pid,
            "quick_cmd": f"/venv/bin/python -m vf.run {pid} --tier quick",
            "thorough_cmd": f"/venv/bin/python -m vf.run {pid} --tier thorough",
            "evidence_file": f"/verif/evidence/{pid}.json",
            "replay_cmd_template": f"/venv/bin/python -m vf.run {pid} --replay {{path}}",
            "engine": "vf",
            "level_claimed": {
                "category": c["category"],
                "text": c["text"],
                "design_ref": f"DESIGN.md section 3, {pid}",
            },
            "level_note": c["note"],
            "technique": c["technique"],
        }
        checks.append(entry)
    not_applicable = [
        {"property_id": pid, "reason": NOT_CLAIMED_REASON}
        for pid in ALL_IDS
        if pid not in CHECKS
    ]
    return {
        "version": 1,
        "setup_cmd": "/venv/bin/python -m vf.setup",
        "hooks": {
            "guard": "AAS_CORE_CODEGEN_VERIF",
            "enable": "No source hooks: monitors are installed from the harness (monkey-patched module attributes, audit hooks, sys.monitoring); checks import aas_core_codegen from /repo's working tree (editable install) and set AAS_CORE_CODEGEN_VERIF=1.",
            "baseline_off_cmd": "cd /repo && env -u AAS_CORE_CODEGEN_VERIF TMPDIR=$(mktemp -d) /venv/bin/python -m pytest -ra -q -p no:cacheprovider --timeout=900 --continue-on-collection-errors",
            "source_commits": [],
            "add_only": True,
        },
        "engines": [
            {
                "name": "vf",
                "path": "/verif/vf",
                "serves_properties": sorted(CHECKS),
                "kind_free_text": "Python runtime-monitoring harness: workload generators, monitors hooked onto the real functions, differential oracles executing the meta-model as Python, independent validators, event-log checkers.",
            }
        ],
        "checks": checks,
        "notes": "Every check runs the real code of /repo under generated workloads while monitors observe the executions; verdicts are held-on-observed (0), violated (1), inconclusive (2), harness error (3). Known genuine defects are listed in known_findings.json by mechanism.",
        "not_applicable": not_applicable,
    }
