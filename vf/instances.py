"""
E5: abstract instance trees for a meta-model (from :class:`vf.pyexec.PyModel`).

An abstract instance is ``Inst(cls, {prop: value})`` with meta-model names; values are
``None | bool | int | float | str | bytes | EnumVal | Inst | list``.  The same tree is
mapped to E4 shadow objects (:func:`to_shadow`) and to SDK objects (:mod:`vf.pysdk`).
"""
import math
import random
import re
from typing import Any, Dict, Iterator, List, Optional, Tuple

try:  # Python >= 3.11
    import re._parser as sre_parse  # type: ignore
    import re._constants as sre_constants  # type: ignore
except ImportError:  # pragma: no cover
    import sre_parse  # type: ignore
    import sre_constants  # type: ignore

from vf.pyexec import PRIMITIVES, PyModel, TypeRef


class EnumVal:
    def __init__(self, enum: str, literal: str) -> None:
        self.enum = enum
        self.literal = literal

    def __repr__(self) -> str:
        return f"{self.enum}.{self.literal}"

    def __eq__(self, other: object) -> bool:
        return (
            isinstance(other, EnumVal)
            and self.enum == other.enum
            and self.literal == other.literal
        )

    def __hash__(self) -> int:
        return hash((self.enum, self.literal))


class Inst:
    def __init__(self, cls: str, props: Dict[str, Any]) -> None:
        self.cls = cls
        self.props = props

    def __repr__(self) -> str:
        return f"{self.cls}({', '.join(f'{k}={v!r}' for k, v in self.props.items())})"


def to_jsonable_sample(value: Any) -> Any:
    if isinstance(value, Inst):
        return {"<cls>": value.cls, **{k: to_jsonable_sample(v) for k, v in value.props.items()}}
    if isinstance(value, EnumVal):
        return repr(value)
    if isinstance(value, list):
        return [to_jsonable_sample(v) for v in value]
    if isinstance(value, (bytes, bytearray)):
        return "hex:" + bytes(value).hex()
    if isinstance(value, float) and (math.isnan(value) or math.isinf(value)):
        return repr(value)
    return value


# ------------------------------------------------------------------ regex sampler
class RegexSampler:
    """Sample strings from the language of a Python regular expression."""

    def __init__(self, rng: random.Random, max_repeat: int = 4) -> None:
        self.rng = rng
        self.max_repeat = max_repeat

    def sample(self, pattern: str) -> Optional[str]:
        try:
            parsed = sre_parse.parse(pattern)
        except Exception:
            return None
        try:
            return self._seq(parsed)
        except Exception:
            return None

    def _seq(self, seq) -> str:
        return "".join(self._node(op, arg) for op, arg in seq)

    def _node(self, op, arg) -> str:
        rng = self.rng
        name = str(op)
        if name == "LITERAL":
            return chr(arg)
        if name == "NOT_LITERAL":
            return self._any_but({arg})
        if name == "ANY":
            return rng.choice("abcXYZ019 _-é")
        if name == "IN":
            return self._from_set(arg)
        if name in ("MAX_REPEAT", "MIN_REPEAT"):
            lo, hi, sub = arg
            hi = min(hi, lo + self.max_repeat) if hi != sre_constants.MAXREPEAT else lo + self.max_repeat
            n = rng.randint(lo, hi)
            return "".join(self._seq(sub) for _ in range(n))
        if name == "SUBPATTERN":
            return self._seq(arg[-1])
        if name == "BRANCH":
            return self._seq(rng.choice(arg[1]))
        if name == "AT":
            return ""
        if name == "CATEGORY":
            return self._category(arg)
        raise ValueError(f"unsupported regex node {name}")

    def _category(self, cat) -> str:
        name = str(cat)
        rng = self.rng
        if name.endswith("CATEGORY_DIGIT"):
            return rng.choice("0123456789")
        if name.endswith("CATEGORY_SPACE"):
            return rng.choice(" \t")
        if name.endswith("CATEGORY_WORD"):
            return rng.choice("abcXYZ019_")
        if name.endswith("NOT_DIGIT"):
            return rng.choice("abc _-")
        if name.endswith("NOT_SPACE"):
            return rng.choice("abc019_-")
        if name.endswith("NOT_WORD"):
            return rng.choice(" -.!")
        raise ValueError(name)

    def _from_set(self, items) -> str:
        rng = self.rng
        negate = False
        choices: List[Tuple[int, int]] = []
        for op, arg in items:
            name = str(op)
            if name == "NEGATE":
                negate = True
            elif name == "LITERAL":
                choices.append((arg, arg))
            elif name == "RANGE":
                choices.append((arg[0], arg[1]))
            elif name == "CATEGORY":
                ch = self._category(arg)
                choices.append((ord(ch), ord(ch)))
            else:
                raise ValueError(name)
        if not negate:
            lo, hi = rng.choice(choices)
            if rng.random() < 0.5:
                return chr(rng.choice([lo, hi]))
            code = rng.randint(lo, hi)
            if 0xD800 <= code <= 0xDFFF:
                code = lo if not 0xD800 <= lo <= 0xDFFF else hi
            return chr(code)
        excluded = choices
        for _ in range(200):
            code = rng.choice([rng.randint(0x20, 0x7E), rng.randint(0xA0, 0x2FF), rng.randint(0x10000, 0x10FFF)])
            if not any(lo <= code <= hi for lo, hi in excluded):
                return chr(code)
        raise ValueError("could not sample from complemented set")

    def _any_but(self, codes) -> str:
        for _ in range(100):
            code = self.rng.randint(0x20, 0x7E)
            if code not in codes:
                return chr(code)
        return "é"


# ------------------------------------------------------------------ instance generator
STRING_POOL = [
    "", "a", "ab", "abc", "ok", "bad", "x y", "A", "Z9", "0", "_", "hello world",
    " lead", "trail ", "é", "ß→", "\U0001F600", "a\U0001F600b", "<&>\"'", "tab\tin",
    "x" * 5, "y" * 8, "z" * 20, "w" * 21,
]
HOSTILE_STRINGS = ["\r", "a\rb", "\r\n", "\n", "\x00", "\x0b", "￾", "\ud800", "]]>", "\x7f", " "]
INT_POOL = [0, 1, 2, 3, 4, 5, 6, 9, 10, 11, 99, 100, 101, -1, -3, -4, 2**31 - 1, 2**31, -(2**31), 2**53, 2**53 + 1, 2**63 - 1, -(2**63)]
FLOAT_POOL = [0.0, -0.0, 0.5, 1.0, 1.5, 10.5, 11.0, -2.0, -2.5, 100.0, 1e-5, 1e10, 1.7976931348623157e308, 5e-324, 0.1]
FLOAT_SPECIAL = [float("inf"), float("-inf"), float("nan")]


class InstanceGenerator:
    def __init__(
        self,
        pm: PyModel,
        rng: random.Random,
        hostile: bool = False,
        special_floats: bool = False,
        max_depth: int = 3,
        int64_only: bool = True,
    ) -> None:
        self.pm = pm
        self.rng = rng
        self.hostile = hostile
        self.special_floats = special_floats
        self.max_depth = max_depth
        self.int64_only = int64_only
        self.sampler = RegexSampler(rng)
        self.patterns = [
            fn.pattern for fn in pm.functions.values() if fn.pattern is not None
        ]
        self.min_depth = self._min_depths()
        self.string_extra: List[str] = []
        for const in pm.constants.values():
            if isinstance(const.value, (set, frozenset)):
                self.string_extra.extend(v for v in const.value if isinstance(v, str))

    # -- which classes can be instantiated finitely ---------------------------
    def _choices(self, name: str) -> List[str]:
        pm = self.pm
        result = []
        if pm.is_class(name):
            if not pm.classes[name].abstract:
                result.append(name)
            result.extend(pm.concrete_descendants(name))
        return result

    def _required_class_refs(self, cls: str) -> List[str]:
        refs = []
        for _, prop in self.pm.all_props(cls):
            t = prop.type
            if t.kind == "atomic" and self.pm.is_class(t.name):
                refs.append(t.name)
        return refs

    def _min_depths(self) -> Dict[str, int]:
        pm = self.pm
        depth: Dict[str, int] = {}
        concrete = [n for n in pm.order if pm.is_class(n) and not pm.classes[n].abstract]
        changed = True
        while changed:
            changed = False
            for cls in concrete:
                best = 0
                ok = True
                for ref in self._required_class_refs(cls):
                    options = [depth[c] for c in self._choices(ref) if c in depth]
                    if not options:
                        ok = False
                        break
                    best = max(best, 1 + min(options))
                if ok and (cls not in depth or best < depth[cls]):
                    depth[cls] = best
                    changed = True
        return depth

    def instantiable(self) -> List[str]:
        return [n for n in self.pm.order if n in self.min_depth]

    # -- values -----------------------------------------------------------------
    def gen_str(self) -> str:
        rng = self.rng
        r = rng.random()
        if self.patterns and r < 0.45:
            s = self.sampler.sample(rng.choice(self.patterns))
            if s is not None:
                if rng.random() < 0.25 and s:
                    k = rng.randrange(len(s))
                    s = s[:k] + rng.choice(["", "!", " ", "é", s[k]]) + s[k + 1 :]
                return s
        if self.string_extra and r < 0.6:
            return rng.choice(self.string_extra)
        if self.hostile and r < 0.75:
            base = rng.choice(STRING_POOL)
            k = rng.randint(0, len(base))
            return base[:k] + rng.choice(HOSTILE_STRINGS) + base[k:]
        if r < 0.9:
            return rng.choice(STRING_POOL)
        return "".join(rng.choice("abcxyz019 _-") for _ in range(rng.choice([1, 2, 3, 4, 5, 6, 8, 19, 20, 21])))

    def gen_prim(self, prim: str) -> Any:
        rng = self.rng
        if prim == "bool":
            return rng.random() < 0.5
        if prim == "int":
            return rng.choice(INT_POOL) if rng.random() < 0.8 else rng.randint(-12, 120)
        if prim == "float":
            if self.special_floats and rng.random() < 0.15:
                return rng.choice(FLOAT_SPECIAL)
            return rng.choice(FLOAT_POOL) if rng.random() < 0.8 else rng.uniform(-5, 120)
        if prim == "str":
            return self.gen_str()
        if prim == "bytearray":
            n = rng.choice([0, 1, 1, 2, 3, 4, 5, 6, 8, 9, 20, 21, 64])
            return bytes(rng.randrange(256) for _ in range(n))
        raise AssertionError(prim)

    def gen_value(self, t: TypeRef, depth: int) -> Any:
        rng = self.rng
        pm = self.pm
        if t.kind == "optional":
            inner = t.inner
            if rng.random() < 0.35:
                return None
            if not self._can_build(inner, depth):
                return None
            return self.gen_value(inner, depth)
        if t.kind == "list":
            if not self._can_build(t.inner, depth):
                return []
            n = rng.choice([0, 1, 1, 2, 2, 3, 5])
            if depth >= self.max_depth:
                n = min(n, 1)
            return [self.gen_value(t.inner, depth) for _ in range(n)]
        if t.kind == "atomic":
            name = t.name
            if name in PRIMITIVES:
                return self.gen_prim(name)
            prim = pm.primitive_of(name)
            if prim is not None:
                return self.gen_prim(prim)
            if pm.is_enum(name):
                lits = pm.classes[name].literals
                return EnumVal(name, rng.choice(lits)[0])
            if pm.is_class(name):
                choices = [c for c in self._choices(name) if c in self.min_depth]
                if depth >= self.max_depth:
                    best = min(self.min_depth[c] for c in choices)
                    choices = [c for c in choices if self.min_depth[c] == best]
                return self.gen_instance(rng.choice(choices), depth + 1)
        raise ValueError(f"cannot generate a value of type {t!r}")

    def _can_build(self, t: TypeRef, depth: int) -> bool:
        if t.kind in ("optional",):
            return True
        if t.kind == "list":
            return True
        if t.kind == "atomic" and self.pm.is_class(t.name):
            choices = [c for c in self._choices(t.name) if c in self.min_depth]
            if not choices:
                return False
            if depth >= self.max_depth:
                return False
            return True
        if t.kind == "atomic":
            return (
                t.name in PRIMITIVES
                or self.pm.primitive_of(t.name) is not None
                or self.pm.is_enum(t.name)
            )
        return False

    def gen_instance(self, cls: str, depth: int = 0) -> Inst:
        props: Dict[str, Any] = {}
        for _, prop in self.pm.all_props(cls):
            props[prop.name] = self.gen_value(prop.type, depth)
        return Inst(cls, props)


# ------------------------------------------------------------------ shadow objects (E4)
def to_shadow(pm: PyModel, value: Any, memo: Optional[Dict[int, Any]] = None) -> Any:
    """Map an abstract value to E4 objects (plain attribute assignment)."""
    if memo is None:
        memo = {}
    if isinstance(value, Inst):
        obj = pm.new_instance(
            value.cls, {k: to_shadow(pm, v, memo) for k, v in value.props.items()}
        )
        memo[id(value)] = obj
        return obj
    if isinstance(value, EnumVal):
        return pm.ns[value.enum][value.literal]
    if isinstance(value, list):
        return [to_shadow(pm, v, memo) for v in value]
    return value


def walk(pm: PyModel, inst: Inst, path: Tuple = ()) -> Iterator[Tuple[Tuple, Any, TypeRef]]:
    """
    Yield ``(path, value, declared type)`` for the instance and everything nested.

    ``path`` is a tuple of property names (str) and list indices (int), in meta-model
    names.  The root is yielded with the atomic type of its class.
    """
    yield path, inst, TypeRef("atomic", inst.cls)
    for _, prop in pm.all_props(inst.cls):
        value = inst.props.get(prop.name)
        yield from _walk_value(pm, value, prop.type, path + (prop.name,))


def _walk_value(pm: PyModel, value: Any, t: TypeRef, path: Tuple):
    if value is None:
        return
    if t.kind == "optional":
        yield from _walk_value(pm, value, t.inner, path)
        return
    if t.kind == "list":
        yield path, value, t
        for i, item in enumerate(value):
            yield from _walk_value(pm, item, t.inner, path + (i,))
        return
    if isinstance(value, Inst):
        yield from walk(pm, value, path)
        return
    yield path, value, t


# ------------------------------------------------------------------ satisfying mode
class Unsatisfied(Exception):
    """No invariant-satisfying value was found within the retry budget."""


def _int_constants(pm: PyModel) -> List[int]:
    import ast as _ast

    found = set()
    for cls in pm.classes.values():
        for inv in cls.own_invariants:
            for node in _ast.walk(inv.node):
                if isinstance(node, _ast.Constant) and type(node.value) is int:
                    found.add(node.value)
    for fn in pm.functions.values():
        for node in _ast.walk(fn.node):
            if isinstance(node, _ast.Constant) and type(node.value) is int:
                found.add(node.value)
    result = set()
    for value in found:
        for delta in (-1, 0, 1):
            if 0 <= value + delta <= 64:
                result.add(value + delta)
    return sorted(result)


class SatisfyingGenerator(InstanceGenerator):
    """
    Generate instances on which *every* invariant holds according to E4
    (generate-and-repair, bottom-up; bounded retries; raises :class:`Unsatisfied`).
    """

    def __init__(self, pm: PyModel, rng: random.Random, **kwargs: Any) -> None:
        super().__init__(pm, rng, **kwargs)
        self.lengths = _int_constants(pm) or [0, 1, 2, 3]
        self.tries_value = 40
        self.tries_instance = 40
        self.work_budget = 600  # object constructions per top-level instance
        self._work = 0
        self.stats = {"instances": 0, "retries": 0, "unsatisfied": 0}

    def gen_str(self) -> str:
        rng = self.rng
        if rng.random() < 0.35:
            n = rng.choice(self.lengths)
            alphabet = rng.choice(["abc", "xyzXYZ", "0123456789", "a", "abcxyz019_-"])
            return "".join(rng.choice(alphabet) for _ in range(n))
        return super().gen_str()

    def gen_prim(self, prim: str) -> Any:
        rng = self.rng
        if prim == "bytearray" and rng.random() < 0.5:
            return bytes(rng.randrange(256) for _ in range(rng.choice(self.lengths)))
        if prim == "int" and rng.random() < 0.4:
            return rng.choice(self.lengths) + rng.choice([-1, 0, 0, 1])
        return super().gen_prim(prim)

    def _holds(self, invs, arg: Any) -> bool:
        for _, inv in invs:
            if inv.func is None:
                continue
            try:
                if inv.func(arg) is not True:
                    return False
            except Exception:
                return False
        return True

    def gen_value(self, t: TypeRef, depth: int) -> Any:
        pm = self.pm
        if t.kind == "list":
            if not self._can_build(t.inner, depth):
                return []
            n = self.rng.choice(self.lengths + [0, 1, 2])
            n = min(n, 6 if depth < self.max_depth else 2)
            return [self.gen_value(t.inner, depth) for _ in range(n)]
        if t.kind == "atomic" and pm.is_constrained_primitive(t.name):
            invs = pm.all_invariants(t.name)
            prim = pm.primitive_of(t.name)
            for _ in range(self.tries_value):
                value = self.gen_prim(prim)
                if self._holds(invs, value):
                    return value
                self.stats["retries"] += 1
            raise Unsatisfied(f"constrained primitive {t.name}")
        return super().gen_value(t, depth)

    def gen_instance(self, cls: str, depth: int = 0) -> Inst:
        invs = self.pm.all_invariants(cls)
        last_error: Optional[Exception] = None
        if depth == 0:
            self._work = 0
        tries = (self.tries_instance if depth == 0 else 6) if invs else 2
        for _ in range(tries):
            self._work += 1
            if self._work > self.work_budget:
                self.stats["unsatisfied"] += 1
                raise Unsatisfied(f"work budget exhausted at class {cls}")
            try:
                inst = super().gen_instance(cls, depth)
            except Unsatisfied as err:
                last_error = err
                self.stats["retries"] += 1
                continue
            if not invs or self._holds(invs, to_shadow(self.pm, inst)):
                self.stats["instances"] += 1
                return inst
            self.stats["retries"] += 1
        self.stats["unsatisfied"] += 1
        raise Unsatisfied(f"class {cls}: {last_error}")


def all_invariants_hold(pm: PyModel, inst: Inst) -> bool:
    """Independent re-check over the whole tree (used by checks before judging)."""
    memo: Dict[int, Any] = {}
    to_shadow(pm, inst, memo)
    for path, value, t in walk(pm, inst):
        if isinstance(value, Inst):
            arg, invs = memo[id(value)], pm.all_invariants(value.cls)
        elif t.kind == "atomic" and pm.is_constrained_primitive(t.name):
            arg, invs = value, pm.all_invariants(t.name)
        else:
            continue
        for _, inv in invs:
            if inv.func is None:
                continue
            try:
                if inv.func(arg) is not True:
                    return False
            except Exception:
                return False
    return True
