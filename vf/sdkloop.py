"""Shared loop body for the SDK-based checks (C08, C10, C29, C30, C11-C14)."""
import re
import traceback
from typing import Optional, Tuple

from vf import driver, harness, pyexec, pysdk


def open_sdk(
    chk: harness.Check, name: str, text: str
) -> Optional[Tuple[pyexec.PyModel, pysdk.Sdk]]:
    """
    Run the reference executor, the real front end and the real Python generator.

    Models that the front end rejects, or on which the generator fails, are counted and
    skipped (their fate is the business of C01/C02); a failing *import* of the generated
    package is a violation of the calling property's premise and reported as such.
    """
    try:
        pm = pyexec.PyModel(text)
    except Exception as err:
        chk.count("reference_executor_failed")
        chk.hist("reference_executor_failure", type(err).__name__)
        return None
    loaded, error, exc = driver.load_inprocess(text)
    if exc is not None or error is not None:
        chk.count("models_rejected_or_crashed_in_front_end")
        return None
    try:
        sdk = pysdk.Sdk(text, pm)
    except pysdk.SdkError as err:
        if err.result.exc is not None:
            chk.count("models_python_generator_crashed")
        else:
            chk.count("models_python_generator_rejected")
            head = (err.result.stderr.strip().splitlines() or [""])[-1]
            chk.hist("generator_rejections", re.sub(r"[0-9]+", "N", head)[:80])
        return None
    except Exception as err:
        chk.violation(
            f"sdk-import-failed/{type(err).__name__}",
            {"model": name, "text": text, "error": traceback.format_exc()[-3000:]},
        )
        return None
    chk.count("models_with_sdk")
    return pm, sdk
