"""
Token-passing scheduler over real worker processes (C24).

Workers are real processes forked from the calling process (which has
``aas_core_codegen`` imported).  Each installs :class:`vf.fsmon.Instrument` once and
then serves tasks: a task runs the real ``run.load_model(model_path,
cache_model=True)`` with ``tempfile.tempdir`` set to the shared private directory
of the current history.  (The processes are kept alive between histories because a
freshly forked interpreter is very slow on copy-on-write page faults; a worker that
was killed is replaced by a new fork.)

Before each file-system step below the shared directory the worker reports the
step through a pipe and blocks until the parent answers:

* ``g`` — go (perform the step and run up to the next one),
* ``k`` — die right here with ``os._exit`` (crash before the step),
* ``x`` / ``i`` — the step fails with ``OSError(ENOSPC)`` / ``KeyboardInterrupt``.

So exactly one worker moves at a time and a *schedule* is the sequence of
``(worker, action)`` decisions; :func:`explore` enumerates schedules depth-first
(stateless: each schedule is re-executed from scratch on a fresh directory).
"""
import errno
import gc
import json
import os
import pathlib
import select
import shutil
import signal
import tempfile
import time
import traceback
from typing import Any, Callable, Dict, List, Optional, Sequence, Tuple

from vf import env, fsmon, harness

WATCHDOG_S = 60.0


class WorkerSpec:
    def __init__(self, model_path: pathlib.Path, chunks: int = 2) -> None:
        self.model_path = model_path
        self.chunks = chunks


# ---------------------------------------------------------------------------
# child side
# ---------------------------------------------------------------------------


def _read_line(fd: int) -> bytes:
    data = b""
    while not data.endswith(b"\n"):
        chunk = os.read(fd, 1)
        if not chunk:
            return b""
        data += chunk
    return data


def _child_main(up_w: int, down_r: int, warm_model: Optional[str]) -> None:
    try:
        gc.freeze()  # a collection must not touch (= copy) the inherited pages
        from aas_core_codegen import run, intermediate

        sent = [0]

        def send(message: Dict[str, Any]) -> None:
            view = memoryview((json.dumps(message) + "\n").encode())
            while view:
                n = os.write(up_w, view[:32768])
                view = view[n:]

        def on_point(point: Dict[str, Any]) -> None:
            # everything recorded since the last report travels with the point (so
            # that the records of a worker that is killed later are not lost)
            batch = inst.events[sent[0] :]
            sent[0] = len(inst.events)
            send({"op": "__point__", "events": batch})
            answer = os.read(down_r, 1)
            if answer == b"g":
                return
            if answer == b"x":
                point["injected"] = "OSError"
                raise OSError(errno.ENOSPC, "injected: no space left on device")
            if answer == b"i":
                point["injected"] = "KeyboardInterrupt"
                raise KeyboardInterrupt()
            os._exit(77)  # b"k", or the parent went away

        inst = fsmon.Instrument("/nonexistent", on_point)
        inst.install()
        if warm_model:
            # fault the pages in before the first measured task
            warm_tmp = tempfile.mkdtemp(prefix="warm-", dir=str(env.scratch()))
            tempfile.tempdir = warm_tmp
            try:
                run.load_model(pathlib.Path(warm_model), cache_model=True)
                run.load_model(pathlib.Path(warm_model), cache_model=True)
            except BaseException:  # noqa
                pass
            shutil.rmtree(warm_tmp, ignore_errors=True)
        os.write(up_w, b'{"op": "__ready__"}\n')
        while True:
            line = _read_line(down_r)
            if not line:
                os._exit(0)
            task = json.loads(line)
            if task.get("cmd") == "exit":
                os._exit(0)
            tempfile.tempdir = task["tmpdir"]
            os.environ["TMPDIR"] = task["tmpdir"]
            inst.begin(task["tmpdir"], int(task["chunks"]))
            sent[0] = 0
            outcome: Dict[str, Any]
            try:
                result, error = run.load_model(
                    pathlib.Path(task["model_path"]), cache_model=True
                )
                inst.active = False
                if result is None:
                    outcome = {"status": "error", "error": error}
                else:
                    symbol_table, atok = result
                    outcome = {
                        "status": "ok",
                        "dump_sha": fsmon.sha256(intermediate.dump(symbol_table)),
                        "text_sha": fsmon.sha256(atok.text),
                    }
            except BaseException as err:  # noqa
                inst.active = False
                outcome = {
                    "status": "exc",
                    "cls": type(err).__name__,
                    "sig": harness.crash_signature(err),
                    "tb": "".join(
                        traceback.format_exception(type(err), err, err.__traceback__)
                    )[-3000:],
                }
            send({"op": "__done__", "outcome": outcome, "events": inst.events[sent[0] :]})
    except BaseException:  # noqa
        try:
            os.write(
                up_w,
                (json.dumps({"op": "__crash__", "tb": traceback.format_exc()}) + "\n").encode(),
            )
        except Exception:
            pass
        os._exit(70)


# ---------------------------------------------------------------------------
# parent side
# ---------------------------------------------------------------------------


class Proc:
    def __init__(self, pid: int, up_r: int, down_w: int) -> None:
        self.pid = pid
        self.up_r = up_r
        self.down_w = down_w
        self.buffer = b""
        self.alive = True

    def read_message(self, deadline: float) -> Optional[Dict[str, Any]]:
        while b"\n" not in self.buffer:
            remaining = deadline - time.time()
            if remaining <= 0:
                return None
            ready, _, _ = select.select([self.up_r], [], [], min(remaining, 1.0))
            if not ready:
                continue
            chunk = os.read(self.up_r, 1 << 16)
            if not chunk:
                return {"op": "__eof__"}
            self.buffer += chunk
        line, self.buffer = self.buffer.split(b"\n", 1)
        return json.loads(line)

    def send(self, data: bytes) -> None:
        try:
            os.write(self.down_w, data)
        except OSError:
            pass

    def reap(self, kill: bool = False) -> None:
        if kill:
            try:
                os.kill(self.pid, signal.SIGKILL)
            except OSError:
                pass
        for fd in (self.up_r, self.down_w):
            try:
                os.close(fd)
            except OSError:
                pass
        try:
            os.waitpid(self.pid, 0)
        except ChildProcessError:
            pass
        self.alive = False


class Pool:
    """Persistent worker processes of one (single-threaded) scheduling process."""

    def __init__(self, warm_model: Optional[pathlib.Path] = None) -> None:
        self.slots: List[Optional[Proc]] = []
        self.warm_model = str(warm_model) if warm_model is not None else None
        self.forks = 0
        self.owner = os.getpid()

    def _fork(self) -> Proc:
        up_r, up_w = os.pipe()
        down_r, down_w = os.pipe()
        gc.freeze()
        pid = os.fork()
        if pid == 0:
            os.close(up_r)
            os.close(down_w)
            for other in self.slots:
                if other is not None:
                    for fd in (other.up_r, other.down_w):
                        try:
                            os.close(fd)
                        except OSError:
                            pass
            _child_main(up_w, down_r, self.warm_model)
            os._exit(0)
        os.close(up_w)
        os.close(down_r)
        self.forks += 1
        return Proc(pid, up_r, down_w)

    def fork_victim(self) -> Proc:
        """A throw-away worker (to be killed): no warm-up, not kept in the pool."""
        warm, self.warm_model = self.warm_model, None
        try:
            proc = self._fork()
        finally:
            self.warm_model = warm
        message = proc.read_message(time.time() + 300.0)
        if message is None or message.get("op") != "__ready__":
            raise RuntimeError(f"victim did not start: {message}")
        return proc

    def ensure(self, n: int) -> List[Proc]:
        while len(self.slots) < n:
            self.slots.append(None)
        fresh = []
        for i in range(n):
            proc = self.slots[i]
            if proc is None or not proc.alive:
                self.slots[i] = self._fork()
                fresh.append(self.slots[i])
        for proc in fresh:
            message = proc.read_message(time.time() + 300.0)
            if message is None or message.get("op") != "__ready__":
                raise RuntimeError(f"worker did not start: {message}")
        return [p for p in self.slots[:n] if p is not None]

    def close(self) -> None:
        if os.getpid() != self.owner:
            return
        for proc in self.slots:
            if proc is not None and proc.alive:
                proc.send(b'{"cmd": "exit"}\n')
                proc.reap()
        self.slots = []


class Worker:
    def __init__(self, idx: int, spec: WorkerSpec, proc: Proc) -> None:
        self.idx = idx
        self.spec = spec
        self.proc = proc
        self.pending: Optional[Dict[str, Any]] = None
        self.finished = False
        self.killed = False
        self.injected: Optional[str] = None
        self.outcome: Optional[Dict[str, Any]] = None
        self.events: List[Dict[str, Any]] = []
        self.points: List[Dict[str, Any]] = []


class Run:
    """One executed history."""

    def __init__(self, tmpdir: pathlib.Path) -> None:
        self.tmpdir = tmpdir
        self.workers: List[Worker] = []
        self.decisions: List[Tuple[List[int], int, str]] = []  # enabled, chosen, action
        self.history: List[Tuple[int, Dict[str, Any], str]] = []
        self.hung = False
        self.harness_notes: List[str] = []
        self.final_snapshot: Dict[str, str] = {}

    def choice_sequence(self) -> Tuple[Tuple[int, str], ...]:
        return tuple((c, a) for _, c, a in self.decisions)

    def signature(self) -> Tuple:
        return tuple(
            (w, a, p.get("op"), fsmon.path_kind(str(p.get("path"))))
            for w, p, a in self.history
        )


def _advance(run: Run, worker: Worker) -> None:
    """Wait until ``worker`` reports its next point, finishes or dies."""
    message = worker.proc.read_message(time.time() + WATCHDOG_S)
    if message is None:
        run.hung = True
        worker.pending = None
        worker.finished = True
        worker.proc.reap(kill=True)
        return
    op = message.get("op")
    if op == "__done__":
        worker.pending = None
        worker.finished = True
        worker.outcome = message["outcome"]
        worker.events.extend(message["events"])
        return
    if op in ("__eof__", "__crash__"):
        worker.pending = None
        worker.finished = True
        run.harness_notes.append(f"worker {worker.idx} died: {message.get('tb', op)}")
        worker.proc.reap(kill=True)
        return
    worker.events.extend(message["events"])
    worker.pending = message["events"][-1]
    worker.points.append(worker.pending)


def step(run: Run, worker: Worker, action: str = "g") -> None:
    assert worker.pending is not None
    run.history.append((worker.idx, worker.pending, action))
    worker.proc.send(action.encode())
    if action == "k":
        worker.killed = True
        worker.pending = None
        worker.finished = True
        worker.proc.reap()
        return
    if action in ("x", "i"):
        worker.injected = action
    _advance(run, worker)


Chooser = Callable[[Run, List[int]], Tuple[int, str]]


def execute(
    pool: Pool,
    specs: Sequence[WorkerSpec],
    chooser: Chooser,
    tmpdir: Optional[pathlib.Path] = None,
    procs: Optional[Sequence[Proc]] = None,
) -> Run:
    """
    Run one task per spec concurrently (token passing) under ``chooser``.

    ``procs``: use these processes instead of the pool's persistent ones.
    """
    base = None
    if tmpdir is None:
        base = env.new_dir("sched")
        tmpdir = base / "tmp"
        tmpdir.mkdir()
    run = Run(tmpdir)
    try:
        if procs is None:
            procs = pool.ensure(len(specs))
        for idx, (spec, proc) in enumerate(zip(specs, procs)):
            worker = Worker(idx, spec, proc)
            run.workers.append(worker)
            task = {
                "model_path": str(spec.model_path),
                "tmpdir": str(tmpdir),
                "chunks": spec.chunks,
            }
            proc.send((json.dumps(task) + "\n").encode())
        for worker in run.workers:
            _advance(run, worker)
        while True:
            enabled = [w.idx for w in run.workers if w.pending is not None]
            if not enabled:
                break
            chosen, action = chooser(run, enabled)
            run.decisions.append((enabled, chosen, action))
            step(run, run.workers[chosen], action)
        run.final_snapshot = fsmon.snapshot(tmpdir)
    finally:
        for worker in run.workers:
            if not worker.finished and worker.proc.alive:
                worker.proc.reap(kill=True)
        if base is not None:
            shutil.rmtree(base, ignore_errors=True)
    return run


def sequential_chooser(run: Run, enabled: List[int]) -> Tuple[int, str]:
    return enabled[0], "g"


def prefix_chooser(prefix: Sequence[Tuple[int, str]]) -> Chooser:
    """Follow ``prefix``; afterwards keep running the last worker, else the lowest."""

    def chooser(run: Run, enabled: List[int]) -> Tuple[int, str]:
        depth = len(run.decisions)
        if depth < len(prefix) and prefix[depth][0] in enabled:
            return prefix[depth]
        if run.decisions:
            last = run.decisions[-1][1]
            if last in enabled:
                return last, "g"
        return enabled[0], "g"

    return chooser


def preemptions(decisions: Sequence[Tuple[List[int], int, str]]) -> int:
    count = 0
    for i in range(1, len(decisions)):
        previous = decisions[i - 1][1]
        enabled, chosen, _ = decisions[i]
        if chosen != previous and previous in enabled:
            count += 1
    return count


class Exploration:
    def __init__(self) -> None:
        self.runs = 0
        self.transitions = 0
        self.nodes = 0
        self.complete = False
        self.divergences = 0
        self.prefixes: List[Tuple[Tuple[int, str], ...]] = []


def explore(
    pool: Pool,
    specs: Sequence[WorkerSpec],
    on_run: Callable[[Run], None],
    fixed_prefix: Sequence[Tuple[int, str]] = (),
    max_preemptions: Optional[int] = None,
    expand_to_depth: Optional[int] = None,
    deadline: Optional[float] = None,
    max_runs: Optional[int] = None,
) -> Exploration:
    """
    Depth-first enumeration of all schedules (go-actions only) below ``fixed_prefix``.

    ``expand_to_depth``: alternatives are only expanded at depths < this value; the
    distinct prefixes of that length are collected in ``Exploration.prefixes`` (they
    are handed to parallel shards as ``fixed_prefix``).  ``max_preemptions`` bounds
    the number of context switches away from a worker that could still move (only
    meaningful without a fixed prefix).
    """
    result = Exploration()
    # frame: [enabled, order (list of worker ids), index]
    stack: List[List[Any]] = []
    fixed = list(fixed_prefix)

    def stack_decisions() -> List[Tuple[List[int], int, str]]:
        return [(frame[0], frame[1][frame[2]], "g") for frame in stack]

    while True:
        if deadline is not None and time.time() > deadline:
            return result
        if max_runs is not None and result.runs >= max_runs:
            return result
        prefix = fixed + [(f[1][f[2]], "g") for f in stack]
        run = execute(pool, specs, prefix_chooser(prefix))
        result.runs += 1
        result.transitions += len(run.decisions)
        # the replay of the prefix must be deterministic
        diverged = len(run.decisions) < len(prefix)
        for at, (chosen, _) in enumerate(prefix):
            if diverged:
                break
            if run.decisions[at][1] != chosen:
                diverged = True
        for d, frame in enumerate(stack):
            if diverged:
                break
            if run.decisions[len(fixed) + d][0] != frame[0]:
                diverged = True
        on_run(run)
        if diverged or run.hung or run.harness_notes:
            result.divergences += 1
            return result
        for at in range(len(fixed) + len(stack), len(run.decisions)):
            enabled, chosen, _ = run.decisions[at]
            order = [chosen] + [w for w in enabled if w != chosen]
            stack.append([enabled, order, 0])
            result.nodes += 1
        if expand_to_depth is not None:
            result.prefixes.append(
                tuple((c, a) for _, c, a in run.decisions[:expand_to_depth])
            )
        # backtrack to the deepest frame with an untried, allowed alternative
        while stack:
            frame = stack[-1]
            depth = len(fixed) + len(stack) - 1
            allowed = False
            if expand_to_depth is None or depth < expand_to_depth:
                while frame[2] + 1 < len(frame[1]):
                    frame[2] += 1
                    if (
                        max_preemptions is None
                        or preemptions(stack_decisions()) <= max_preemptions
                    ):
                        allowed = True
                        break
            if allowed:
                break
            stack.pop()
        if not stack:
            result.complete = True
            return result
