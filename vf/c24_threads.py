"""
C24, runs as threads of one process.

``python -m vf.c24_threads <model> <cache root> <n schedules> <seed> <n threads>`` runs the
real ``run.load_model(cache_model=True)`` in several threads of *this* process (the runs
share the process id, the temporary directory and every module-level state) while a
token-passing scheduler releases one file-system step at a time: ``stat`` (the
``exists()`` probes), ``open``, every chunk of ``pickle.dump`` (flushed, so that the
bytes really are in the file), ``os.rename``, ``os.remove``, ``os.mkdir`` and
``pickle.load``, all below the cache root.  One JSON line per schedule goes to stdout:

    {"schedule": k, "history": [[thread, step, path kind], ...], "switches": n,
     "outcomes": [{"thread": i, "error": ..., "result_sha": ...}, ...],
     "final": {"error": ..., "result_sha": ...}, "strays": [...], "watchdog": bool}

The oracle lives in vf/checks/c24.py.  A watchdog that fires makes the schedule
inconclusive, never a violation.
"""
import hashlib
import json
import os
import pathlib
import pickle
import random
import re
import shutil
import sys
import tempfile
import threading
import time
import traceback
from typing import Any, Dict, List, Optional, Tuple


def path_kind(rel: str) -> str:
    name = rel.rsplit("/", 1)[-1]
    if name.endswith(".tmp"):
        return "tmp"
    if name.endswith(".pickle") or name.startswith("model-"):
        return "entry"
    return "dir" if "." not in name else "other"


class Scheduler:
    """One thread moves at a time; the controller picks who takes the next step."""

    def __init__(self, rng: random.Random, root: str) -> None:
        self.rng = rng
        self.root = os.path.abspath(root).rstrip("/")
        self.cv = threading.Condition()
        self.names: Dict[int, int] = {}  # thread ident -> index
        self.waiting: Dict[int, Tuple[str, str]] = {}
        self.finished: set = set()
        self.granted: Optional[int] = None
        self.running: Optional[int] = None
        self.history: List[Tuple[int, str, str]] = []
        self.free_run = False
        self.watchdog = False
        self.local = threading.local()

    def rel(self, path: Any) -> Optional[str]:
        if isinstance(path, int) or path is None:
            return None
        try:
            path = os.fspath(path)
            if isinstance(path, bytes):
                path = os.fsdecode(path)
            path = os.path.abspath(path)
        except Exception:
            return None
        if path == self.root:
            return "."
        if path.startswith(self.root + "/"):
            return path[len(self.root) + 1:]
        return None

    def point(self, step: str, rel: str) -> None:
        idx = self.names.get(threading.get_ident())
        if idx is None or self.free_run or getattr(self.local, "busy", False):
            return
        self.local.busy = True
        try:
            with self.cv:
                self.waiting[idx] = (step, path_kind(rel))
                if self.running == idx:
                    self.running = None
                self.cv.notify_all()
                deadline = time.monotonic() + 120.0
                while self.granted != idx and not self.free_run:
                    if not self.cv.wait(timeout=1.0) and time.monotonic() > deadline:
                        self.watchdog = True
                        self.free_run = True
                        self.cv.notify_all()
                        break
                if self.granted == idx:
                    self.granted = None
                self.waiting.pop(idx, None)
                self.running = idx
        finally:
            self.local.busy = False

    def done(self) -> None:
        idx = self.names.get(threading.get_ident())
        with self.cv:
            self.finished.add(idx)
            if self.running == idx:
                self.running = None
            self.cv.notify_all()

    def control(self, n: int) -> None:
        """Grant steps until every thread has finished."""
        deadline = time.monotonic() + 300.0
        with self.cv:
            while len(self.finished) < n and not self.free_run:
                # wait until every live thread stands at a point (or has finished)
                live = [i for i in range(n) if i not in self.finished]
                if self.granted is not None or self.running is not None or any(
                    i not in self.waiting for i in live
                ):
                    if not self.cv.wait(timeout=1.0) and time.monotonic() > deadline:
                        self.watchdog = True
                        self.free_run = True
                        self.cv.notify_all()
                    continue
                choice = self.rng.choice(sorted(live))
                step, kind = self.waiting[choice]
                self.history.append((choice, step, kind))
                self.granted = choice
                self.cv.notify_all()


SCHED: Optional[Scheduler] = None


def _audit(event: str, args: tuple) -> None:
    sched = SCHED
    if sched is None:
        return
    if event == "open":
        rel = sched.rel(args[0]) if args else None
        if rel is not None:
            flags = args[2] if len(args) > 2 and isinstance(args[2], int) else 0
            write = bool(flags & (os.O_WRONLY | os.O_RDWR | os.O_CREAT | os.O_TRUNC))
            sched.point("open-w" if write else "open-r", rel)
    elif event in ("os.rename", "os.remove", "os.mkdir"):
        rel = sched.rel(args[0]) if args else None
        if rel is None and event == "os.rename" and len(args) > 1:
            rel = sched.rel(args[1])
        if rel is not None:
            sched.point(event, rel)


def install(chunks: int) -> None:
    sys.addaudithook(_audit)
    for name in ("stat", "lstat"):
        real = getattr(os, name)

        def wrapper(path, *args, _real=real, **kwargs):  # type: ignore
            sched = SCHED
            if sched is not None and not kwargs.get("dir_fd"):
                rel = sched.rel(path)
                if rel is not None:
                    sched.point("stat", rel)
            return _real(path, *args, **kwargs)

        setattr(os, name, wrapper)
    real_dumps, real_loads = pickle.dumps, pickle.loads

    def dump(obj: Any, file: Any, *args: Any, **kwargs: Any) -> None:
        data = real_dumps(obj, *args, **kwargs)
        sched = SCHED
        name = getattr(file, "name", None)
        rel = sched.rel(name) if sched is not None and isinstance(name, (str, bytes)) else None
        size = max(1, -(-len(data) // chunks))
        for c in range(0, len(data), size):
            if sched is not None and rel is not None:
                sched.point("dump-chunk", rel)
            file.write(data[c:c + size])
            file.flush()

    def load(file: Any, *args: Any, **kwargs: Any) -> Any:
        sched = SCHED
        name = getattr(file, "name", None)
        rel = sched.rel(name) if sched is not None and isinstance(name, (str, bytes)) else None
        if sched is not None and rel is not None:
            sched.point("load", rel)
        return real_loads(file.read(), *args, **kwargs)

    pickle.dump = dump  # type: ignore
    pickle.load = load  # type: ignore


def result_sha(symbol_table: Any, atok: Any) -> str:
    """Identity of a loaded model: its text and the shape of the symbol table."""
    h = hashlib.sha256()
    h.update(getattr(atok, "text", "").encode("utf-8", "surrogatepass"))
    names = [
        f"{type(t).__name__}:{t.name}:{len(getattr(t, 'properties', []) or [])}"
        for t in symbol_table.our_types
    ]
    h.update("|".join(names).encode())
    h.update("|".join(sorted(str(c.name) for c in symbol_table.constants)).encode())
    return h.hexdigest()


def signature(err: BaseException) -> str:
    tb = traceback.extract_tb(err.__traceback__)
    where = ""
    for frame in reversed(tb):
        if "aas_core_codegen" in frame.filename:
            where = f"{pathlib.Path(frame.filename).name}:{frame.name}|at: {(frame.line or '').strip()[:80]}"
            break
    return f"{type(err).__name__}@{where}"


def load_once(model_path: pathlib.Path, cache: bool) -> Dict[str, Any]:
    from aas_core_codegen import run

    try:
        loaded, error = run.load_model(model_path=model_path, cache_model=cache)
    except BaseException as err:  # noqa
        return {"error": signature(err), "detail": "".join(traceback.format_exception(err))[-1500:]}
    if loaded is None:
        return {"error": "refused", "detail": str(error)[-800:]}
    symbol_table, atok = loaded
    return {"error": None, "result_sha": result_sha(symbol_table, atok)}


def main(argv: List[str]) -> int:
    global SCHED
    model_path = pathlib.Path(argv[0])
    base = pathlib.Path(argv[1])
    n_schedules, seed, n_threads = int(argv[2]), int(argv[3]), int(argv[4])
    chunks = 3
    install(chunks)
    reference = load_once(model_path, cache=False)
    print(json.dumps({"reference": reference}), flush=True)
    for k in range(n_schedules):
        tmp = base / f"s{k}"
        tmp.mkdir(parents=True, exist_ok=True)
        tempfile.tempdir = str(tmp)
        os.environ["TMPDIR"] = str(tmp)
        rng = random.Random(f"{seed}/{k}")
        # sometimes a warm cache: one run has completed before the concurrent ones start
        warm = rng.random() < 0.25
        if warm:
            load_once(model_path, cache=True)
        sched = Scheduler(rng, str(tmp))
        outcomes: List[Optional[Dict[str, Any]]] = [None] * n_threads
        started = threading.Barrier(n_threads + 1)

        def body(i: int) -> None:
            sched.names[threading.get_ident()] = i
            started.wait()
            try:
                outcome = load_once(model_path, cache=True)
                outcome["thread"] = i
                outcomes[i] = outcome
            finally:
                sched.done()

        threads = [threading.Thread(target=body, args=(i,), daemon=True) for i in range(n_threads)]
        for t in threads:
            t.start()
        SCHED = sched
        started.wait()
        sched.control(n_threads)
        for t in threads:
            t.join(timeout=120.0)
        hung = any(t.is_alive() for t in threads)
        SCHED = None
        final = load_once(model_path, cache=True)
        strays = sorted(
            p.relative_to(tmp).as_posix() for p in tmp.rglob("*") if p.is_file() and p.name.endswith(".tmp")
        )
        switches = sum(1 for a, b in zip(sched.history, sched.history[1:]) if a[0] != b[0])
        print(json.dumps({
            "schedule": k, "warm": warm, "history": sched.history, "switches": switches,
            "outcomes": outcomes, "final": final, "strays": strays,
            "watchdog": sched.watchdog or hung,
        }), flush=True)
        if hung:
            return 0  # threads still hold the patched state: stop here, the rest is not run
        shutil.rmtree(tmp, ignore_errors=True)
    return 0


if __name__ == "__main__":
    sys.exit(main(sys.argv[1:]))
