"""Dispatcher: ``python -m vf.run <ID> [--tier quick|thorough] [--seed N]``."""
import importlib
import sys
import traceback


def main() -> int:
    if len(sys.argv) < 2:
        print("usage: python -m vf.run <property id> [--tier ...] [--seed ...]")
        return 3
    pid = sys.argv[1].upper()
    from vf import env

    env.setup()
    try:
        module = importlib.import_module(f"vf.checks.{pid.lower()}")
    except ModuleNotFoundError:
        print(f"no check for {pid}")
        return 3
    try:
        return int(module.main(sys.argv[2:]))
    except SystemExit:
        raise
    except BaseException:  # harness failure, never a verdict
        traceback.print_exc()
        print(f"HARNESS-ERROR: property={pid} the check itself crashed")
        return 3


if __name__ == "__main__":
    sys.exit(main())
