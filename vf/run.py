"""Dispatcher: ``python -m vf.run <ID> [--tier quick|thorough] [--seed N]``."""
import importlib
import sys
import traceback


def main() -> int:
    if len(sys.argv) < 2:
        print("usage: python -m vf.run <property id> [--tier ...] [--seed ...]")
        return 3
    pid = sys.argv[1].upper()
    from vf import env

    env.setup()
    try:
        module = importlib.import_module(f"vf.checks.{pid.lower()}")
    except ModuleNotFoundError:
        print(f"no check for {pid}")
        return 3
    try:
        return int(module.main(sys.argv[2:]))
    except SystemExit:
        raise
    except BaseException as err:  # noqa
        traceback.print_exc()
        text = traceback.format_exc()
        marker = str(env.REPO / "aas_core_codegen") + "/"
        if marker in text:
            # the exception left repository code that the check calls directly: an
            # observation about the repository (never seen on the unchanged tree)
            from vf import harness

            chk = harness.Check(pid, "exploration", "uncaught exception from repository code", sys.argv[2:])
            chk.evaluations = 1
            chk.violation(
                "uncaught-exception-from-repository|"
                + harness.normalize_message(f"{type(err).__name__}: {err}", 70),
                {"trace_back": text[-4000:]},
            )
            return chk.finish()
        print(f"HARNESS-ERROR: property={pid} the check itself crashed")
        return 3


if __name__ == "__main__":
    sys.exit(main())
