"""
Specification-derived lexers for C# (ECMA-334, 6th ed. + raw strings of C# 11) and Go
(The Go Programming Language Specification, "Lexical elements").

There is neither ``dotnet`` nor ``go`` in the sandbox, so C20/C21 use these lexers as a
*weaker* oracle: a source file is "lexically well-formed" if the lexer consumes the
whole file, ends in the default state (no open string / rune / comment), every escape
sequence in a literal is one the language defines, no character outside the language's
alphabet occurs outside literals and comments, and the brackets ``()[]{}`` balance.

The lexers are written from the language specifications only; they share no code with
``aas_core_codegen`` and do not look at how the generator escapes text.
"""
from typing import List, NamedTuple, Optional, Tuple


class Token(NamedTuple):
    kind: str  # ident | number | string | char | comment | doc | punct | directive
    text: str
    line: int
    depth: int  # bracket depth *before* this token


class LexError(NamedTuple):
    code: str  # stable class, e.g. "unterminated-string"
    line: int
    detail: str


class LexResult(NamedTuple):
    tokens: List[Token]
    errors: List[LexError]


OPEN = {"(": ")", "[": "]", "{": "}"}
CLOSE = {")": "(", "]": "[", "}": "{"}

HEX = set("0123456789abcdefABCDEF")


def _is_ident_start(ch: str) -> bool:
    return ch == "_" or ch.isalpha()


def _is_ident_part(ch: str) -> bool:
    return ch == "_" or ch.isalnum() or (ch != "" and ord(ch) > 127 and ch.isidentifier())


class _Base:
    def __init__(self, text: str) -> None:
        self.s = text
        self.n = len(text)
        self.i = 0
        self.line = 1
        self.tokens: List[Token] = []
        self.errors: List[LexError] = []
        self.stack: List[Tuple[str, int]] = []

    def err(self, code: str, detail: str = "", line: Optional[int] = None) -> None:
        if len(self.errors) < 50:
            self.errors.append(LexError(code, self.line if line is None else line, detail[:120]))

    def emit(self, kind: str, start: int, line: int) -> None:
        self.tokens.append(Token(kind, self.s[start:self.i], line, len(self.stack)))

    def peek(self, k: int = 0) -> str:
        j = self.i + k
        return self.s[j] if j < self.n else ""

    def bracket(self, ch: str) -> None:
        start = self.i
        line = self.line
        if ch in OPEN:
            self.i += 1
            self.emit("punct", start, line)
            self.stack.append((ch, line))
        else:
            if not self.stack:
                self.err("unbalanced-closing-bracket", ch)
            elif self.stack[-1][0] != CLOSE[ch]:
                self.err(
                    "mismatched-bracket",
                    f"{self.stack[-1][0]} opened at line {self.stack[-1][1]} closed by {ch}",
                )
                self.stack.pop()
            else:
                self.stack.pop()
            self.i += 1
            self.emit("punct", start, line)

    def finish(self) -> LexResult:
        for ch, line in self.stack[:5]:
            self.err("unclosed-bracket", f"{ch} opened at line {line}", line)
        return LexResult(self.tokens, self.errors)

    def line_comment(self, kind: str = "comment") -> None:
        start, line = self.i, self.line
        j = self.s.find("\n", self.i)
        self.i = self.n if j < 0 else j
        self.emit(kind, start, line)

    def block_comment(self) -> None:
        start, line = self.i, self.line
        j = self.s.find("*/", self.i + 2)
        if j < 0:
            self.err("unterminated-block-comment", self.s[start:start + 40])
            self.line += self.s.count("\n", self.i)
            self.i = self.n
        else:
            self.line += self.s.count("\n", self.i, j)
            self.i = j + 2
        self.emit("comment", start, line)

    def number(self) -> None:
        start, line = self.i, self.line
        # generous: digits, letters, '_', '.', and exponent signs
        while self.i < self.n:
            ch = self.s[self.i]
            if ch.isalnum() or ch == "_":
                self.i += 1
            elif ch == "." and self.peek(1).isdigit():
                self.i += 1
            elif ch in "+-" and self.s[self.i - 1] in "eEpP" and not self.s[start:start + 2].lower() == "0x":
                self.i += 1
            elif ch in "+-" and self.s[self.i - 1] in "pP":
                self.i += 1
            else:
                break
        self.emit("number", start, line)

    def ident(self) -> None:
        start, line = self.i, self.line
        self.i += 1
        while self.i < self.n and _is_ident_part(self.s[self.i]):
            self.i += 1
        self.emit("ident", start, line)


# ---------------------------------------------------------------------------
# C#
# ---------------------------------------------------------------------------

CSHARP_SIMPLE_ESCAPES = set("'\"\\0abfnrtv")
# ECMA-334 "new_line_character": LF, CR, NEL, LS, PS
CSHARP_NEWLINES = "\n\r\u0085\u2028\u2029"
CSHARP_PUNCT = set("+-*/%&|^!~=<>?:;,.")


class _CSharp(_Base):
    def line_comment(self, kind: str = "comment") -> None:
        start, line = self.i, self.line
        j = self.i
        while j < self.n and self.s[j] not in CSHARP_NEWLINES:
            j += 1
        self.i = j
        self.emit(kind, start, line)

    def run(self, until_brace: bool = False) -> LexResult:
        """Lex; with ``until_brace`` stop at the ``}`` closing an interpolation hole."""
        s = self.s
        at_line_start = True
        base_depth = len(self.stack)
        while self.i < self.n:
            ch = s[self.i]
            if ch == "\n":
                self.line += 1
                self.i += 1
                at_line_start = True
                continue
            if ch in "\r\u0085\u2028\u2029":
                self.i += 1
                at_line_start = True
                continue
            if ch in " \t\f\v\ufeff\xa0":
                self.i += 1
                continue
            if ch == "#" and at_line_start and not until_brace:
                start, line = self.i, self.line
                j = self.i
                while j < self.n and s[j] not in CSHARP_NEWLINES:
                    j += 1
                self.i = j
                self.emit("directive", start, line)
                continue
            at_line_start = False
            nxt = self.peek(1)
            if ch == "/" and nxt == "/":
                self.line_comment("doc" if self.peek(2) == "/" and self.peek(3) != "/" else "comment")
                continue
            if ch == "/" and nxt == "*":
                self.block_comment()
                continue
            if ch == '"':
                if s.startswith('"""', self.i):
                    self.raw_string(0)
                else:
                    self.regular_string(interpolated=False)
                continue
            if ch == "'":
                self.char_literal()
                continue
            if ch == "@":
                if nxt == '"':
                    self.verbatim_string(1, interpolated=False)
                    continue
                if nxt == "$" and self.peek(2) == '"':
                    self.verbatim_string(2, interpolated=True)
                    continue
                if _is_ident_start(nxt):
                    self.i += 1
                    self.ident()
                    continue
                self.err("stray-character", "@")
                self.i += 1
                continue
            if ch == "$":
                k = 0
                while self.peek(k) == "$":
                    k += 1
                if self.peek(k) == '"' and s.startswith('"""', self.i + k):
                    self.raw_string(k)
                    continue
                if k == 1 and nxt == '"':
                    self.i += 1
                    self.regular_string(interpolated=True)
                    continue
                if k == 1 and nxt == "@" and self.peek(2) == '"':
                    self.verbatim_string(2, interpolated=True)
                    continue
                self.err("stray-character", "$")
                self.i += 1
                continue
            if ch in OPEN:
                self.bracket(ch)
                continue
            if ch in CLOSE:
                if until_brace and ch == "}" and len(self.stack) == base_depth:
                    return LexResult(self.tokens, self.errors)
                self.bracket(ch)
                continue
            if ch.isdigit() or (ch == "." and nxt.isdigit()):
                self.number()
                continue
            if _is_ident_start(ch):
                self.ident()
                continue
            if ch in CSHARP_PUNCT:
                start, line = self.i, self.line
                self.i += 1
                self.emit("punct", start, line)
                continue
            self.err("stray-character", repr(ch))
            self.i += 1
        if until_brace:
            self.err("unterminated-interpolation-hole", "")
        return self.finish() if not until_brace else LexResult(self.tokens, self.errors)

    def escape(self, where: str) -> None:
        """Consume one escape sequence starting at the backslash."""
        nxt = self.peek(1)
        if nxt == "":
            self.err(f"unterminated-{where}", "backslash at end of file")
            self.i += 1
            return
        if nxt in CSHARP_SIMPLE_ESCAPES:
            self.i += 2
            return
        if nxt == "x":
            k = 0
            while k < 4 and self.peek(2 + k) in HEX and self.peek(2 + k) != "":
                k += 1
            if k == 0:
                self.err("invalid-escape-sequence", "\\x without hex digit")
            self.i += 2 + k
            return
        if nxt in "uU":
            need = 4 if nxt == "u" else 8
            digits = self.s[self.i + 2:self.i + 2 + need]
            if len(digits) != need or any(d not in HEX for d in digits):
                self.err("invalid-escape-sequence", "\\" + nxt + digits)
                self.i += 2
                return
            self.i += 2 + need
            return
        if nxt in CSHARP_NEWLINES:
            self.err(f"newline-in-{where}", "backslash-newline")
            self.i += 1
            return
        self.err("invalid-escape-sequence", "\\" + nxt)
        self.i += 2

    def hole(self) -> None:
        """Lex the expression inside an interpolation hole; ``self.i`` is after '{'."""
        sub = _CSharp(self.s)
        sub.i, sub.line = self.i, self.line
        result = sub.run(until_brace=True)
        self.errors.extend(result.errors)
        self.i, self.line = sub.i, sub.line
        if self.peek() == "}":
            self.i += 1

    def regular_string(self, interpolated: bool) -> None:
        start, line = self.i - (1 if interpolated else 0), self.line
        self.i += 1
        while True:
            ch = self.peek()
            if ch == "":
                self.err("unterminated-string", self.s[start:start + 40], line)
                break
            if ch in CSHARP_NEWLINES:
                self.err("newline-in-string", self.s[start:start + 40], line)
                break
            if ch == '"':
                self.i += 1
                break
            if ch == "\\":
                self.escape("string")
                continue
            if interpolated and ch == "{":
                if self.peek(1) == "{":
                    self.i += 2
                    continue
                self.i += 1
                self.hole()
                continue
            if interpolated and ch == "}":
                if self.peek(1) == "}":
                    self.i += 2
                    continue
                self.err("stray-brace-in-interpolated-string", "")
                self.i += 1
                continue
            self.i += 1
        save = self.i
        self.tokens.append(Token("string", self.s[start:save], line, len(self.stack)))

    def verbatim_string(self, prefix_len: int, interpolated: bool) -> None:
        start, line = self.i, self.line
        self.i += prefix_len + 1
        while True:
            ch = self.peek()
            if ch == "":
                self.err("unterminated-verbatim-string", self.s[start:start + 40], line)
                break
            if ch == '"':
                if self.peek(1) == '"':
                    self.i += 2
                    continue
                self.i += 1
                break
            if ch == "\n":
                self.line += 1
            if interpolated and ch == "{":
                if self.peek(1) == "{":
                    self.i += 2
                    continue
                self.i += 1
                self.hole()
                continue
            if interpolated and ch == "}":
                if self.peek(1) == "}":
                    self.i += 2
                    continue
                self.err("stray-brace-in-interpolated-string", "")
            self.i += 1
        self.tokens.append(Token("string", self.s[start:self.i], line, len(self.stack)))

    def raw_string(self, dollars: int) -> None:
        start, line = self.i, self.line
        self.i += dollars
        q = 0
        while self.peek(q) == '"':
            q += 1
        closing = '"' * q
        self.i += q
        j = self.s.find(closing, self.i)
        if j < 0:
            self.err("unterminated-raw-string", self.s[start:start + 40], line)
            self.line += self.s.count("\n", self.i)
            self.i = self.n
        else:
            # the closing delimiter is the *last* run of >= q quotes at that spot
            while self.s.startswith('"', j + q):
                j += 1
            self.line += self.s.count("\n", self.i, j)
            self.i = j + q
        self.tokens.append(Token("string", self.s[start:self.i], line, len(self.stack)))

    def char_literal(self) -> None:
        start, line = self.i, self.line
        self.i += 1
        ch = self.peek()
        if ch == "" or ch in CSHARP_NEWLINES:
            self.err("unterminated-char", self.s[start:start + 20], line)
            return
        if ch == "'":
            self.err("empty-char-literal", "", line)
            self.i += 1
            return
        if ch == "\\":
            self.escape("char")
        else:
            self.i += 1
            # a surrogate pair is one Python char; nothing else to do
        if self.peek() != "'":
            self.err("unterminated-char", self.s[start:start + 20], line)
            # resynchronise at the end of the line
            j = self.s.find("\n", self.i)
            self.i = self.n if j < 0 else j
        else:
            self.i += 1
        self.tokens.append(Token("char", self.s[start:self.i], line, len(self.stack)))


def lex_csharp(text: str) -> LexResult:
    return _CSharp(text).run()


# ---------------------------------------------------------------------------
# Go
# ---------------------------------------------------------------------------

GO_PUNCT = set("+-*/%&|^!~=<>:;,.")
GO_SIMPLE_ESCAPES = set("abfnrtv\\")


class _Go(_Base):
    def run(self) -> LexResult:
        s = self.s
        while self.i < self.n:
            ch = s[self.i]
            if ch == "\n":
                self.line += 1
                self.i += 1
                continue
            if ch in " \t\r":
                self.i += 1
                continue
            if ch == "\ufeff" and self.i == 0:
                self.i += 1
                continue
            nxt = self.peek(1)
            if ch == "/" and nxt == "/":
                self.line_comment()
                continue
            if ch == "/" and nxt == "*":
                self.block_comment()
                continue
            if ch == '"':
                self.interpreted_string()
                continue
            if ch == "`":
                self.raw_string()
                continue
            if ch == "'":
                self.rune()
                continue
            if ch in OPEN or ch in CLOSE:
                self.bracket(ch)
                continue
            if ch.isdigit() or (ch == "." and nxt.isdigit()):
                self.number()
                continue
            if _is_ident_start(ch):
                self.ident()
                continue
            if ch in GO_PUNCT:
                start, line = self.i, self.line
                self.i += 1
                self.emit("punct", start, line)
                continue
            self.err("stray-character", repr(ch))
            self.i += 1
        return self.finish()

    def escape(self, quote: str) -> None:
        nxt = self.peek(1)
        if nxt == "":
            self.err("unterminated-literal", "backslash at end of file")
            self.i += 1
            return
        if nxt in GO_SIMPLE_ESCAPES or nxt == quote:
            self.i += 2
            return
        if nxt in "01234567":
            digits = self.s[self.i + 1:self.i + 4]
            if len(digits) != 3 or any(d not in "01234567" for d in digits):
                self.err("invalid-escape-sequence", "\\" + digits)
                self.i += 2
                return
            if int(digits, 8) > 255:
                self.err("invalid-escape-sequence", "\\" + digits)
            self.i += 4
            return
        need = {"x": 2, "u": 4, "U": 8}.get(nxt)
        if need is not None:
            digits = self.s[self.i + 2:self.i + 2 + need]
            if len(digits) != need or any(d not in HEX for d in digits):
                self.err("invalid-escape-sequence", "\\" + nxt + digits)
                self.i += 2
                return
            if nxt in "uU":
                value = int(digits, 16)
                if value > 0x10FFFF or 0xD800 <= value <= 0xDFFF:
                    self.err("invalid-escape-sequence", "\\" + nxt + digits)
            self.i += 2 + need
            return
        if nxt == "\n":
            self.err("newline-in-literal", "backslash-newline")
            return
        self.err("invalid-escape-sequence", "\\" + nxt)
        self.i += 2

    def interpreted_string(self) -> None:
        start, line = self.i, self.line
        self.i += 1
        while True:
            ch = self.peek()
            if ch == "":
                self.err("unterminated-string", self.s[start:start + 40], line)
                break
            if ch == "\n":
                self.err("newline-in-string", self.s[start:start + 40], line)
                break
            if ch == '"':
                self.i += 1
                break
            if ch == "\\":
                self.escape('"')
                continue
            self.i += 1
        self.emit("string", start, line)

    def raw_string(self) -> None:
        start, line = self.i, self.line
        j = self.s.find("`", self.i + 1)
        if j < 0:
            self.err("unterminated-raw-string", self.s[start:start + 40], line)
            self.line += self.s.count("\n", self.i)
            self.i = self.n
        else:
            self.line += self.s.count("\n", self.i, j)
            self.i = j + 1
        self.emit("string", start, line)

    def rune(self) -> None:
        start, line = self.i, self.line
        self.i += 1
        ch = self.peek()
        if ch in ("", "\n"):
            self.err("unterminated-rune", self.s[start:start + 20], line)
            return
        if ch == "'":
            self.err("empty-rune-literal", "", line)
            self.i += 1
            return
        if ch == "\\":
            self.escape("'")
        else:
            self.i += 1
        if self.peek() != "'":
            self.err("unterminated-rune", self.s[start:start + 20], line)
            j = self.s.find("\n", self.i)
            self.i = self.n if j < 0 else j
        else:
            self.i += 1
        self.emit("char", start, line)


def lex_go(text: str) -> LexResult:
    return _Go(text).run()


# ---------------------------------------------------------------------------
# TypeScript / Java / C++ (token streams for the declaration scanners of C21 only;
# well-formedness of these languages is decided by node, javac and g++)
# ---------------------------------------------------------------------------

class _CLike(_Base):
    """Lenient lexer for C-family sources: comments, quoted literals, brackets."""

    def __init__(self, text: str, templates: bool, text_blocks: bool, raw_strings: bool) -> None:
        super().__init__(text)
        self.templates = templates
        self.text_blocks = text_blocks
        self.raw_strings = raw_strings

    def run(self, until_brace: bool = False) -> LexResult:
        s = self.s
        base_depth = len(self.stack)
        at_line_start = True
        while self.i < self.n:
            ch = s[self.i]
            if ch == "\n":
                self.line += 1
                self.i += 1
                at_line_start = True
                continue
            if ch in " \t\r\f\v\ufeff\xa0":
                self.i += 1
                continue
            if ch == "#" and at_line_start and not self.templates:
                # preprocessor directive (with backslash continuations)
                start, line = self.i, self.line
                while self.i < self.n:
                    j = s.find("\n", self.i)
                    if j < 0:
                        self.i = self.n
                        break
                    if s[j - 1] == "\\":
                        self.line += 1
                        self.i = j + 1
                        continue
                    self.i = j
                    break
                self.emit("directive", start, line)
                continue
            at_line_start = False
            nxt = self.peek(1)
            if ch == "/" and nxt == "/":
                self.line_comment()
                continue
            if ch == "/" and nxt == "*":
                self.block_comment()
                continue
            if ch == "/" and self.templates and self.regex_allowed():
                self.regex_literal()
                continue
            if ch == '"' and self.text_blocks and s.startswith('"""', self.i):
                start, line = self.i, self.line
                j = s.find('"""', self.i + 3)
                j = self.n if j < 0 else j + 3
                self.line += s.count("\n", self.i, j)
                self.i = j
                self.emit("string", start, line)
                continue
            if ch == "R" and nxt == '"' and self.raw_strings:
                start, line = self.i, self.line
                k = s.find("(", self.i + 2)
                if k > 0 and k - self.i <= 18:
                    closing = ")" + s[self.i + 2:k] + '"'
                    j = s.find(closing, k)
                    j = self.n if j < 0 else j + len(closing)
                    self.line += s.count("\n", self.i, j)
                    self.i = j
                    self.emit("string", start, line)
                    continue
            if ch in "\"'":
                self.quoted(ch)
                continue
            if ch == "`" and self.templates:
                self.template()
                continue
            if ch in OPEN:
                self.bracket(ch)
                continue
            if ch in CLOSE:
                if until_brace and ch == "}" and len(self.stack) == base_depth:
                    return LexResult(self.tokens, self.errors)
                self.bracket(ch)
                continue
            if ch.isdigit():
                self.number()
                continue
            if _is_ident_start(ch) or ch == "$" or (ch == "@" and _is_ident_start(nxt)):
                start, line = self.i, self.line
                self.i += 1
                while self.i < self.n and (_is_ident_part(s[self.i]) or s[self.i] == "$"):
                    self.i += 1
                self.emit("ident", start, line)
                continue
            start, line = self.i, self.line
            self.i += 1
            self.emit("punct", start, line)
        return self.finish() if not until_brace else LexResult(self.tokens, self.errors)

    def regex_allowed(self) -> bool:
        """ECMAScript: a slash starts a regular expression where no operand precedes it."""
        for token in reversed(self.tokens):
            if token.kind == "comment":
                continue
            if token.kind in ("number", "string"):
                return False
            if token.kind == "ident":
                return token.text in ("return", "typeof", "case", "in", "of", "delete", "void", "throw", "new")
            return token.text not in (")", "]", "}")
        return True

    def regex_literal(self) -> None:
        start, line = self.i, self.line
        self.i += 1
        in_class = False
        while self.i < self.n:
            ch = self.s[self.i]
            if ch == "\\":
                self.i += 2
                continue
            if ch == "\n":
                self.err("newline-in-literal", self.s[start:start + 40], line)
                break
            self.i += 1
            if ch == "[":
                in_class = True
            elif ch == "]":
                in_class = False
            elif ch == "/" and not in_class:
                break
        while self.i < self.n and self.s[self.i].isalpha():
            self.i += 1
        self.emit("string", start, line)

    def quoted(self, quote: str) -> None:
        start, line = self.i, self.line
        self.i += 1
        while self.i < self.n:
            ch = self.s[self.i]
            if ch == "\\":
                self.i += 2
                continue
            if ch == "\n":
                self.err("newline-in-literal", self.s[start:start + 40], line)
                break
            self.i += 1
            if ch == quote:
                break
        self.emit("string", start, line)

    def template(self) -> None:
        start, line = self.i, self.line
        self.i += 1
        while self.i < self.n:
            ch = self.s[self.i]
            if ch == "\\":
                self.i += 2
                continue
            if ch == "\n":
                self.line += 1
            if ch == "`":
                self.i += 1
                break
            if ch == "$" and self.peek(1) == "{":
                self.i += 2
                sub = _CLike(self.s, self.templates, self.text_blocks, self.raw_strings)
                sub.i, sub.line = self.i, self.line
                sub.run(until_brace=True)
                self.errors.extend(sub.errors)
                self.i, self.line = sub.i, sub.line
                if self.peek() == "}":
                    self.i += 1
                continue
            self.i += 1
        self.tokens.append(Token("string", self.s[start:self.i], line, len(self.stack)))


def lex_typescript(text: str) -> LexResult:
    return _CLike(text, templates=True, text_blocks=False, raw_strings=False).run()


def lex_java(text: str) -> LexResult:
    return _CLike(text, templates=False, text_blocks=True, raw_strings=False).run()


def lex_cpp(text: str) -> LexResult:
    return _CLike(text, templates=False, text_blocks=False, raw_strings=True).run()
