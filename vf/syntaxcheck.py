"""
Independent well-formedness oracles for generated files (checks C20 and C21).

Python: CPython's own parser.  Java: the real javac (parser only, or parser + attribution)
through ``native/c20/JavaSyntax.java``.  TypeScript: node 22's type transform followed by
V8's module compilation through ``native/c20/tscheck.mjs``.  C++: ``g++ -std=c++17
-fsyntax-only`` over a unity translation unit, plus the preprocessor alone (``-E``) over
every file.  JSON / XSD: ``json`` / ``xml.etree``.  C#: ``vf.lexers`` and expat over
the documentation comments.  Go: ``vf.lexers``.
"""
import ast
import json
import os
import pathlib
import re
import shutil
import signal
import subprocess
import threading
import warnings
import xml.etree.ElementTree as ET
import xml.parsers.expat
from typing import Any, Dict, Iterable, List, NamedTuple, Optional, Sequence, Tuple

from vf import env, lexers

NODE22 = "/root/.nvm/versions/node/v22.22.2/bin/node"
NATIVE = env.VERIF / "native"


class Failure(NamedTuple):
    oracle: str  # e.g. "ast.parse", "javac-parse", "csharp-doc-xml"
    code: str  # stable diagnostic class
    path: str  # absolute path of the file
    line: int
    message: str


# ---------------------------------------------------------------------------------
# In-process oracles
# ---------------------------------------------------------------------------------

def check_python(path: pathlib.Path) -> List[Failure]:
    data = path.read_bytes()
    try:
        with warnings.catch_warnings():
            warnings.simplefilter("ignore")
            ast.parse(data, filename=str(path))
    except SyntaxError as err:
        message = str(err.msg)
        code = re.sub(r"\(.*?\)|'[^']*'|\d+", "", message).strip().lower()
        code = re.sub(r"[^a-z]+", "-", code).strip("-")[:60]
        return [Failure("ast.parse", code or "syntax-error", str(path), err.lineno or 0, message)]
    except ValueError as err:  # e.g. source contains null bytes (older Pythons)
        return [Failure("ast.parse", "value-error", str(path), 0, str(err))]
    return []


def check_json(path: pathlib.Path) -> List[Failure]:
    try:
        json.loads(path.read_bytes().decode("utf-8"))
    except UnicodeDecodeError as err:
        return [Failure("json.loads", "not-utf-8", str(path), 0, str(err))]
    except json.JSONDecodeError as err:
        code = re.sub(r"[^a-z]+", "-", err.msg.lower()).strip("-")[:60]
        return [Failure("json.loads", code, str(path), err.lineno, err.msg)]
    return []


def check_xml(path: pathlib.Path) -> List[Failure]:
    try:
        ET.fromstring(path.read_bytes())
    except ET.ParseError as err:
        text = str(err)
        code = re.sub(r":.*", "", text)
        code = re.sub(r"[^a-z]+", "-", code.lower()).strip("-")[:60]
        return [Failure("xml.etree", code, str(path), err.position[0], text)]
    return []


def read_text(path: pathlib.Path) -> Tuple[Optional[str], Optional[Failure]]:
    data = path.read_bytes()
    try:
        return data.decode("utf-8"), None
    except UnicodeDecodeError as err:
        return None, Failure("decode", "not-utf-8", str(path), 0, str(err))


def csharp_doc_blocks(tokens: Sequence[lexers.Token]) -> List[Tuple[int, str]]:
    """Group adjacent ``///`` comments into blocks: ``(first line, text)``."""
    blocks: List[Tuple[int, List[str]]] = []
    previous_line = None
    previous_was_doc = False
    for token in tokens:
        if token.kind == "doc":
            content = token.text[3:]
            if previous_was_doc and previous_line is not None and token.line == previous_line + 1:
                blocks[-1][1].append(content)
            else:
                blocks.append((token.line, [content]))
            previous_line = token.line
            previous_was_doc = True
        else:
            previous_was_doc = False
    return [(line, "\n".join(parts)) for line, parts in blocks]


def check_csharp(path: pathlib.Path) -> Tuple[List[Failure], int]:
    """Return (failures, number of documentation blocks parsed)."""
    text, failure = read_text(path)
    if text is None:
        return [failure], 0  # type: ignore
    result = lexers.lex_csharp(text)
    failures = [
        Failure("csharp-lexer", e.code, str(path), e.line, e.detail) for e in result.errors[:5]
    ]
    blocks = csharp_doc_blocks(result.tokens)
    for line, block in blocks:
        parser = xml.parsers.expat.ParserCreate("utf-8")
        try:
            parser.Parse(("<root>" + block + "\n</root>").encode("utf-8"), True)
        except xml.parsers.expat.ExpatError as err:
            message = xml.parsers.expat.ErrorString(err.code)
            code = re.sub(r"[^a-z]+", "-", message.lower()).strip("-")[:60]
            failures.append(
                Failure("csharp-doc-xml", code, str(path), line + err.lineno - 1,
                        f"{message}: {block[:300]}")
            )
    return failures, len(blocks)


def check_go(path: pathlib.Path) -> List[Failure]:
    text, failure = read_text(path)
    if text is None:
        return [failure]  # type: ignore
    result = lexers.lex_go(text)
    return [Failure("go-lexer", e.code, str(path), e.line, e.detail) for e in result.errors[:5]]


# ---------------------------------------------------------------------------------
# Sub-process helpers
# ---------------------------------------------------------------------------------

def run_group(cmd: Sequence[str], timeout: float, cwd: Optional[str] = None,
              stdin_data: Optional[bytes] = None,
              discard_stdout: bool = False) -> Tuple[Optional[int], bytes, bytes]:
    """Run ``cmd`` in its own process group; kill the whole group on time-out."""
    proc = subprocess.Popen(
        list(cmd), cwd=cwd, stdin=subprocess.PIPE if stdin_data is not None else subprocess.DEVNULL,
        stdout=subprocess.DEVNULL if discard_stdout else subprocess.PIPE,
        stderr=subprocess.PIPE, start_new_session=True,
        env=env.child_env(),
    )
    try:
        out, err = proc.communicate(stdin_data, timeout=timeout)
        return proc.returncode, out or b"", err
    except subprocess.TimeoutExpired:
        try:
            os.killpg(proc.pid, signal.SIGKILL)
        except ProcessLookupError:
            pass
        out, err = proc.communicate()
        return None, out or b"", err


class LineServer:
    """A child process that answers batches over stdin/stdout (one batch at a time)."""

    def __init__(self, cmd: Sequence[str], start_timeout: float) -> None:
        self.cmd = list(cmd)
        self.proc: Optional[subprocess.Popen] = None
        self.error: Optional[str] = None
        self.start_timeout = start_timeout

    def start(self) -> bool:
        if self.proc is not None:
            return True
        if self.error is not None:
            return False
        try:
            self.proc = subprocess.Popen(
                self.cmd, stdin=subprocess.PIPE, stdout=subprocess.PIPE,
                stderr=subprocess.DEVNULL, start_new_session=True, env=env.child_env(),
            )
        except OSError as err:
            self.error = f"cannot start {self.cmd[0]}: {err}"
            return False
        line = self._readline(self.start_timeout)
        if line is None or line.strip() != "READY":
            self.error = f"{self.cmd[0]} did not become ready: {line!r}"
            self.close()
            return False
        return True

    def _readline(self, timeout: float) -> Optional[str]:
        assert self.proc is not None and self.proc.stdout is not None
        result: List[Optional[bytes]] = [None]

        def reader() -> None:
            try:
                result[0] = self.proc.stdout.readline()  # type: ignore
            except Exception:
                result[0] = None

        thread = threading.Thread(target=reader, daemon=True)
        thread.start()
        thread.join(timeout)
        if thread.is_alive() or not result[0]:
            return None
        return result[0].decode("utf-8", "replace").rstrip("\n")

    def request(self, lines: Iterable[str], is_last, timeout: float) -> Optional[List[str]]:
        """Send ``lines``; collect answer lines until ``is_last(line)``."""
        if not self.start():
            return None
        assert self.proc is not None and self.proc.stdin is not None
        try:
            self.proc.stdin.write(("\n".join(lines) + "\n").encode("utf-8"))
            self.proc.stdin.flush()
        except OSError as err:
            self.error = f"{self.cmd[0]} died: {err}"
            self.close()
            return None
        answer: List[str] = []
        while True:
            line = self._readline(timeout)
            if line is None:
                self.error = f"{self.cmd[0]} timed out or died"
                self.close()
                return None
            answer.append(line)
            if is_last(line):
                return answer

    def close(self) -> None:
        if self.proc is not None:
            try:
                os.killpg(self.proc.pid, signal.SIGKILL)
            except (ProcessLookupError, PermissionError):
                pass
            try:
                self.proc.wait(timeout=5)
            except Exception:
                pass
            self.proc = None


# ---------------------------------------------------------------------------------
# Java
# ---------------------------------------------------------------------------------

def jackson_classpath() -> Optional[str]:
    found: Dict[str, str] = {}
    root = pathlib.Path("/opt/veriftools")
    if not root.is_dir():
        return None
    for path in root.rglob("jackson-*2.15*.jar"):
        for name in ("core", "databind", "annotations"):
            if path.name.startswith(f"jackson-{name}-"):
                found.setdefault(name, str(path))
    if len(found) != 3:
        return None
    return ":".join(found[k] for k in ("core", "databind", "annotations"))


class JavaServer:
    def __init__(self) -> None:
        java = shutil.which("java")
        self.available = java is not None and shutil.which("javac") is not None
        self.server = LineServer(
            [java or "java", "-Xss16m", "-XX:TieredStopAtLevel=1", "-XX:+UseSerialGC",
             str(NATIVE / "c20" / "JavaSyntax.java")],
            start_timeout=300,
        )

    def run(self, paths: Sequence[str], analyze_classpath: Optional[str] = None,
            timeout: float = 600) -> Optional[List[Failure]]:
        """Parse (or analyze) ``paths``; return the ERROR diagnostics, None if unavailable."""
        if not self.available or not paths:
            return None if not self.available else []
        head = "PARSE" if analyze_classpath is None else f"ANALYZE {analyze_classpath}"
        answer = self.server.request(
            [head] + list(paths) + ["END"], lambda l: l.startswith("DONE\t"), timeout
        )
        if answer is None:
            return None
        failures = []
        oracle = "javac-parse" if analyze_classpath is None else "javac-analyze"
        for line in answer:
            parts = line.split("\t")
            if parts[0] != "D" or len(parts) < 6:
                continue
            _, kind, code, path, lineno, message = parts[:6]
            if kind not in ("ERROR", "CRASH"):
                continue
            failures.append(Failure(oracle, code, path, int(lineno or 0), message))
        return failures

    @property
    def error(self) -> Optional[str]:
        return self.server.error

    def close(self) -> None:
        self.server.close()


# ---------------------------------------------------------------------------------
# TypeScript
# ---------------------------------------------------------------------------------

class TsServer:
    def __init__(self) -> None:
        self.available = os.path.exists(NODE22)
        self.server = LineServer(
            [NODE22, "--experimental-vm-modules", "--no-warnings",
             str(NATIVE / "c20" / "tscheck.mjs")],
            start_timeout=180,
        )

    def run(self, paths: Sequence[str], timeout: float = 600) -> Optional[List[Failure]]:
        if not self.available:
            return None
        if not paths:
            return []
        answer = self.server.request(
            list(paths) + ["END"], lambda l: l.startswith('{"done"'), timeout
        )
        if answer is None:
            return None
        failures = []
        for line in answer:
            try:
                obj = json.loads(line)
            except ValueError:
                continue
            if "file" not in obj:
                continue
            stage = obj.get("stage", "")
            message = str(obj.get("message", ""))
            first = message.strip().splitlines()[0] if message.strip() else ""
            code = re.sub(r"'[^']*'|\"[^\"]*\"|\d+", "", first)
            code = re.sub(r"[^a-zA-Z]+", "-", code).strip("-").lower()[:60]
            lineno = 0
            m = re.search(r":(\d+):\d+", message)
            if m:
                lineno = int(m.group(1))
            failures.append(Failure(f"node-{stage}", code, obj["file"], lineno, message[:500]))
        return failures

    @property
    def error(self) -> Optional[str]:
        return self.server.error

    def close(self) -> None:
        self.server.close()


# ---------------------------------------------------------------------------------
# C++
# ---------------------------------------------------------------------------------

GXX_LINE = re.compile(r"^(?P<path>/[^:\n]+):(?P<line>\d+):(?:(?P<col>\d+):)? (?P<kind>fatal error|error|warning): (?P<msg>.*)$")

# Diagnostics of the lexer / preprocessor (translation phases 1-6).
GXX_LEXICAL = [
    (re.compile(r"^unterminated comment"), "unterminated-comment"),
    (re.compile(r"^missing terminating (.) character"), "missing-terminating-quote"),
    (re.compile(r"^stray .* in program"), "stray-character"),
    (re.compile(r"^unterminated raw string"), "unterminated-raw-string"),
    (re.compile(r"^invalid new-line in raw string"), "unterminated-raw-string"),
    (re.compile(r"^(incomplete|invalid) universal character name"), "bad-universal-character-name"),
    (re.compile(r"^.* is not a valid universal character"), "bad-universal-character-name"),
    (re.compile(r"^null character\(s\)"), "null-character"),
    (re.compile(r"^empty character constant"), "empty-character-constant"),
    (re.compile(r"^(hex|octal) escape sequence out of range"), "escape-out-of-range"),
    (re.compile(r"^\\x used with no following hex digits"), "bad-hex-escape"),
    (re.compile(r"^invalid preprocessing directive"), "invalid-preprocessing-directive"),
    (re.compile(r"^unable to find (string|character|numeric) literal operator"), "literal-suffix"),
    (re.compile(r"^invalid suffix .* on (integer|floating|string) constant"), "literal-suffix"),
    (re.compile(r"^extended character .* is not valid in an identifier"), "stray-character"),
    (re.compile(r"^unterminated #"), "unterminated-conditional"),
    (re.compile(r"^#(else|endif|elif) without #if"), "unterminated-conditional"),
]
# Diagnostics of the parser proper.
GXX_SYNTAX = [
    (re.compile(r"^expected .*"), "expected-token"),
    (re.compile(r"^extra qualification"), None),
    (re.compile(r"^a function-definition is not allowed here"), "misplaced-definition"),
    (re.compile(r"^.* does not name a type"), None),
]


def classify_gxx(message: str) -> Optional[Tuple[str, str]]:
    """Return (level, code) if ``message`` is a lexical / syntax diagnostic."""
    for pattern, code in GXX_LEXICAL:
        if pattern.search(message):
            return "lexical", code  # type: ignore
    for pattern, code in GXX_SYNTAX:
        if pattern.search(message):
            if code is None:
                return None
            return "syntax", code
    return None


def gxx_available() -> bool:
    return shutil.which("g++") is not None


def parse_gxx(stderr: str) -> List[Tuple[str, int, str, str]]:
    """Return (path, line, kind, message) of the diagnostics in g++'s output."""
    result = []
    for line in stderr.splitlines():
        m = GXX_LINE.match(line)
        if m:
            result.append((m.group("path"), int(m.group("line")), m.group("kind"), m.group("msg")))
    return result


def gxx_unity(
    sources: Sequence[str], include_dirs: Sequence[str], workdir: pathlib.Path,
    timeout: float, name: str = "unity",
) -> Tuple[Optional[int], List[Tuple[str, int, str, str]], str]:
    """``g++ -fsyntax-only`` over one translation unit that includes ``sources``."""
    unity = workdir / f"{name}.cpp"
    unity.write_text("".join(f'#include "{s}"\n' for s in sources), encoding="utf-8")
    cmd = ["g++", "-std=c++17", "-fsyntax-only", "-fmax-errors=0", "-w",
           "-fdiagnostics-plain-output", "-I", str(NATIVE)]
    for d in include_dirs:
        cmd += ["-I", d]
    cmd.append(str(unity))
    rc, _, err = run_group(cmd, timeout, cwd=str(workdir))
    text = err.decode("utf-8", "replace")
    return rc, parse_gxx(text), text


INCLUDE_RE = re.compile(r'^[ \t]*#[ \t]*include[ \t]*[<"]([^>"\n]+)[>"]', re.M)


def gxx_preprocess(
    sources: Sequence[str], include_dirs: Sequence[str], workdir: pathlib.Path, timeout: float
) -> Tuple[Optional[int], List[Tuple[str, int, str, str]], str]:
    """
    Run only translation phases 1-4 (``g++ -E``) over ``sources``.

    Every header that is not found under ``include_dirs`` is replaced by an empty stand-in,
    so files whose third-party headers are absent (nlohmann/json, catch2) are lexed, too.
    """
    stubs = workdir / "stubs"
    stubs.mkdir(exist_ok=True)
    wanted = set()
    pending = list(sources)
    seen = set()
    while pending:
        src = pending.pop()
        if src in seen:
            continue
        seen.add(src)
        try:
            text = pathlib.Path(src).read_text(encoding="utf-8", errors="replace")
        except OSError:
            continue
        for inc in INCLUDE_RE.findall(text):
            resolved = None
            for d in [str(pathlib.Path(src).parent)] + list(include_dirs):
                candidate = pathlib.Path(d) / inc
                if candidate.is_file():
                    resolved = str(candidate)
                    break
            if resolved is None:
                wanted.add(inc)
            else:
                pending.append(resolved)
    for inc in wanted:
        path = stubs / inc
        try:
            path.parent.mkdir(parents=True, exist_ok=True)
            if not path.exists():
                path.write_text("", encoding="utf-8")
        except OSError:
            pass
    unity = workdir / "preprocess_unity.cpp"
    unity.write_text("".join(f'#include "{s}"\n' for s in sources), encoding="utf-8")
    cmd = ["g++", "-std=c++17", "-E", "-nostdinc", "-nostdinc++", "-fdiagnostics-plain-output",
           "-I", str(stubs)]
    for d in include_dirs:
        cmd += ["-I", d]
    cmd.append(str(unity))
    proc_rc, _, err = run_group(cmd, timeout, cwd=str(workdir), discard_stdout=True)
    text = err.decode("utf-8", "replace")
    return proc_rc, parse_gxx(text), text
