"""E6: generate the Python SDK for a meta-model, import it, build SDK objects."""
import hashlib
import importlib
import itertools
import sys
from typing import Any, Dict, Mapping, Optional, Tuple

from vf import driver, instances
from vf.pyexec import PyModel

_COUNTER = itertools.count()


class SdkError(Exception):
    def __init__(self, result: driver.RunResult) -> None:
        super().__init__(f"rc={result.rc} exc={result.exc!r} stderr={result.stderr[:500]}")
        self.result = result


def python_snippets_for(pm: PyModel, module_name: str) -> Dict[str, str]:
    """
    Python snippets for the implementation-specific functions and methods.

    The bodies are the reference bodies written in the meta-model itself, renamed with
    the repo's own naming functions (so a consistent renaming cannot raise an alarm).
    """
    import ast

    from aas_core_codegen.common import Identifier
    from aas_core_codegen.python import naming as pn

    snippets: Dict[str, str] = {"qualified_module_name.txt": module_name}

    class Renamer(ast.NodeTransformer):
        def __init__(self, arg_map: Dict[str, str], in_types_module: bool = False) -> None:
            self.arg_map = arg_map
            self.in_types_module = in_types_module

        def visit_Name(self, node: ast.Name) -> Any:
            if node.id in self.arg_map:
                return ast.copy_location(ast.Name(self.arg_map[node.id], node.ctx), node)
            if pm.is_enum(node.id) and self.in_types_module:
                return ast.copy_location(
                    ast.Name(str(pn.enum_name(Identifier(node.id))), node.ctx), node
                )
            if pm.is_enum(node.id):
                return ast.copy_location(
                    ast.Attribute(
                        ast.Name("aas_types", ast.Load()),
                        str(pn.enum_name(Identifier(node.id))),
                        node.ctx,
                    ),
                    node,
                )
            return node

        def visit_Attribute(self, node: ast.Attribute) -> Any:
            if isinstance(node.value, ast.Name) and pm.is_enum(node.value.id):
                return ast.copy_location(
                    ast.Attribute(
                        self.visit(node.value),
                        str(pn.enum_literal_name(Identifier(node.attr))),
                        node.ctx,
                    ),
                    node,
                )
            self.generic_visit(node)
            if isinstance(node.value, ast.Name) and node.value.id == "self":
                node.attr = str(pn.property_name(Identifier(node.attr)))
            return node

    for fn in pm.functions.values():
        if not fn.implementation_specific:
            continue
        arg_map = {a.name: str(pn.argument_name(Identifier(a.name))) for a in fn.args}
        body = [
            Renamer(arg_map).visit(stmt)
            for stmt in ast.parse(ast.unparse(fn.node)).body[0].body
        ]
        name = str(pn.function_name(Identifier(fn.name)))
        args = ", ".join(arg_map.values())
        src = f"def {name}({args}) -> bool:\n" + "\n".join(
            "    " + line for stmt in body for line in ast.unparse(stmt).splitlines()
        )
        snippets[f"Verification/{fn.name}.py"] = src
    for cls in pm.classes.values():
        for method in cls.own_methods:
            if not method.implementation_specific:
                continue
            arg_map = {a.name: str(pn.argument_name(Identifier(a.name))) for a in method.args}
            body = [
                Renamer(arg_map, in_types_module=True).visit(stmt)
                for stmt in ast.parse(ast.unparse(method.node)).body[0].body
            ]
            name = str(pn.method_name(Identifier(method.name)))
            args = ", ".join(["self"] + list(arg_map.values()))
            src = f"def {name}({args}):\n" + "\n".join(
                "    " + line for stmt in body for line in ast.unparse(stmt).splitlines()
            )
            snippets[f"Types/{cls.name}/{method.name}.py"] = src
    return snippets


class Sdk:
    """A generated and imported Python SDK."""

    def __init__(self, text: str, pm: Optional[PyModel] = None) -> None:
        from aas_core_codegen.common import Identifier
        from aas_core_codegen.python import naming as pn

        self.Identifier = Identifier
        self.pn = pn
        self.text = text
        self.pm = pm if pm is not None else PyModel(text)
        digest = hashlib.sha256(text.encode("utf-8", "surrogatepass")).hexdigest()[:10]
        self.module_name = f"vfsdk_{digest}_{next(_COUNTER)}"
        snippets = python_snippets_for(self.pm, self.module_name)
        self.result = driver.run_inprocess(text, "python", snippets=snippets)
        if self.result.exc is not None or self.result.rc != 0:
            self.result.cleanup()
            raise SdkError(self.result)
        self.root = self.result.output_dir
        sys.path.insert(0, str(self.root))
        try:
            importlib.invalidate_caches()
            self.types = importlib.import_module(f"{self.module_name}.types")
            self.verification = importlib.import_module(f"{self.module_name}.verification")
            self.jsonization = importlib.import_module(f"{self.module_name}.jsonization")
            self.xmlization = importlib.import_module(f"{self.module_name}.xmlization")
            self.constants = importlib.import_module(f"{self.module_name}.constants")
            self.stringification = importlib.import_module(
                f"{self.module_name}.stringification"
            )
            self.common = importlib.import_module(f"{self.module_name}.common")
        finally:
            sys.path.remove(str(self.root))

    def close(self) -> None:
        for name in list(sys.modules):
            if name == self.module_name or name.startswith(self.module_name + "."):
                del sys.modules[name]
        self.result.cleanup()

    # -- names (always through the repo's own naming functions) --------------------
    def cls_name(self, name: str) -> str:
        return str(self.pn.class_name(self.Identifier(name)))

    def prop_name(self, name: str) -> str:
        return str(self.pn.property_name(self.Identifier(name)))

    def arg_name(self, name: str) -> str:
        return str(self.pn.argument_name(self.Identifier(name)))

    def enum_cls(self, name: str) -> Any:
        return getattr(self.types, str(self.pn.enum_name(self.Identifier(name))))

    def enum_literal(self, enum: str, literal: str) -> Any:
        return getattr(
            self.enum_cls(enum), str(self.pn.enum_literal_name(self.Identifier(literal)))
        )

    def sdk_class(self, name: str) -> Any:
        return getattr(self.types, self.cls_name(name))

    # -- objects --------------------------------------------------------------------
    def build(self, value: Any, memo: Optional[Dict[int, Any]] = None) -> Any:
        """Map an abstract value to SDK objects via the generated constructors."""
        if memo is None:
            memo = {}
        if isinstance(value, instances.Inst):
            kwargs = {
                self.arg_name(k): self.build(v, memo) for k, v in value.props.items()
            }
            obj = self.sdk_class(value.cls)(**kwargs)
            memo[id(value)] = obj
            return obj
        if isinstance(value, instances.EnumVal):
            return self.enum_literal(value.enum, value.literal)
        if isinstance(value, list):
            return [self.build(v, memo) for v in value]
        return value

    def path_str(self, path: Tuple) -> str:
        """Render a meta-model path the way the SDK renders verification paths."""
        parts = []
        for segment in path:
            if isinstance(segment, int):
                parts.append(f"[{segment}]")
            else:
                parts.append(f".{self.prop_name(segment)}")
        return "".join(parts)
