"""
Helpers of check C26: flow shapes, enumeration, and the two reference interpreters.

A *shape* is a nested tuple (the canonical structural form of a flow):

* ``("cmd",)``, ``("yield",)``
* ``("ift", body, or_else)`` / ``("iff", body, or_else)`` where ``or_else`` is ``None``
  (no else), or a (possibly empty) tuple of shapes,
* ``("for", has_init, body)``, ``("while", body)``.

Commands, for-inits, for-iterations and conditions are opaque probes.  The code text of
a probe is ``T(<id>);`` (commands), ``CI(<id>)`` (condition of an if) or ``CL(<id>)``
(condition of a loop); ids are unique per flow (pre-order).  The same texts are valid
C++ against ``native/c26/driver.cpp.in``.

Events are small ints: command ``4*id``, condition ``4*id + 1 + outcome``, yield ``3``.
"""
import functools
import random
from typing import Any, Dict, Iterator, List, Optional, Sequence, Tuple

Shape = Tuple[Any, ...]
ShapeSeq = Tuple[Shape, ...]

YIELD_EVENT = 3

KINDS = ("cmd", "yield", "ift", "ift+else", "iff", "iff+else", "for", "for+init", "while")


# ---------------------------------------------------------------------------
# enumeration
# ---------------------------------------------------------------------------


@functools.lru_cache(maxsize=None)
def seqs(n: int, d: int) -> Tuple[ShapeSeq, ...]:
    """All sequences with exactly ``n`` nodes whose compound nesting is ``<= d``."""
    if n == 0:
        return ((),)
    out = []  # type: List[ShapeSeq]
    for s in range(1, n + 1):
        rests = seqs(n - s, d)
        for node in nodes(s, d):
            for rest in rests:
                out.append((node,) + rest)
    return tuple(out)


@functools.lru_cache(maxsize=None)
def nodes(s: int, d: int) -> Tuple[Shape, ...]:
    """All single nodes (sub-trees) with exactly ``s`` nodes and nesting ``<= d``."""
    out = []  # type: List[Shape]
    if s == 1:
        out.append(("cmd",))
        out.append(("yield",))
    if d >= 1:
        for body in seqs(s - 1, d - 1):
            out.append(("while", body))
            out.append(("for", False, body))
            out.append(("for", True, body))
        for b in range(1, s):
            e = s - 1 - b
            elses = list(seqs(e, d - 1))  # type: List[Optional[ShapeSeq]]
            if e == 0:
                elses.append(None)
            for body in seqs(b, d - 1):
                for or_else in elses:
                    out.append(("ift", body, or_else))
                    out.append(("iff", body, or_else))
    return tuple(out)


def count_seqs(n: int, d: int) -> int:
    """Number of sequences with exactly ``n`` nodes and nesting ``<= d`` (closed form)."""

    @functools.lru_cache(maxsize=None)
    def cs(n_: int, d_: int) -> int:
        if n_ == 0:
            return 1
        return sum(cn(s, d_) * cs(n_ - s, d_) for s in range(1, n_ + 1))

    @functools.lru_cache(maxsize=None)
    def cn(s: int, d_: int) -> int:
        c = 2 if s == 1 else 0
        if d_ >= 1:
            c += 3 * cs(s - 1, d_ - 1)
            t = 0
            for b in range(1, s):
                e = s - 1 - b
                t += cs(b, d_ - 1) * (cs(e, d_ - 1) + (1 if e == 0 else 0))
            c += 2 * t
        return c

    return cs(n, d)


class Level:
    """Random access into the flows with exactly ``n`` nodes and nesting ``<= d``."""

    def __init__(self, n: int, d: int) -> None:
        self.n = n
        self.d = d
        self.blocks = []  # type: List[Tuple[int, Tuple[Shape, ...], Tuple[ShapeSeq, ...]]]
        total = 0
        for s in range(1, n + 1):
            first = nodes(s, d)
            rest = seqs(n - s, d)
            self.blocks.append((total, first, rest))
            total += len(first) * len(rest)
        self.total = total if n > 0 else 1

    def get(self, index: int) -> ShapeSeq:
        if self.n == 0:
            return ()
        for start, first, rest in reversed(self.blocks):
            if index >= start:
                a, b = divmod(index - start, len(rest))
                return (first[a],) + rest[b]
        raise IndexError(index)


def random_flow(rng: random.Random, size: int, depth: int) -> ShapeSeq:
    """A random sequence with about ``size`` nodes (at least 1) and nesting ``<= depth``."""

    def seq(budget: int, d: int, allow_empty: bool) -> Tuple[ShapeSeq, int]:
        out = []  # type: List[Shape]
        if allow_empty and rng.random() < 0.08:
            return (), budget
        while budget > 0:
            node, budget = one(budget, d)
            out.append(node)
            if rng.random() < 0.25:
                break
        return tuple(out), budget

    def one(budget: int, d: int) -> Tuple[Shape, int]:
        budget -= 1
        if d <= 0 or budget <= 0 and rng.random() < 0.7 or rng.random() < 0.35:
            return (("cmd",) if rng.random() < 0.5 else ("yield",)), budget
        kind = rng.choice(("ift", "iff", "for", "while", "ift", "iff"))
        if kind in ("ift", "iff"):
            if budget <= 0:
                body = (("cmd",) if rng.random() < 0.5 else ("yield",),)  # type: ShapeSeq
                budget -= 1
            else:
                body, budget = seq(budget, d - 1, False)
            r = rng.random()
            if r < 0.4:
                or_else = None  # type: Optional[ShapeSeq]
            else:
                or_else, budget = seq(budget, d - 1, True)
            return (kind, body, or_else), budget
        body, budget = seq(budget, d - 1, True)
        if kind == "for":
            return ("for", rng.random() < 0.5, body), budget
        return ("while", body), budget

    out = []  # type: List[Shape]
    budget = max(1, size)
    while budget > 0:
        node, budget = one(budget, depth)
        out.append(node)
    return tuple(out)


# ---------------------------------------------------------------------------
# description of shapes
# ---------------------------------------------------------------------------


def text(flow: Optional[ShapeSeq]) -> str:
    """Compact canonical text, e.g. ``c y t(c|y) f(y) F(c) Fi() w()``; t=IfTrue, f=IfFalse."""
    if flow is None:
        return "-"
    parts = []
    for node in flow:
        k = node[0]
        if k == "cmd":
            parts.append("c")
        elif k == "yield":
            parts.append("y")
        elif k in ("ift", "iff"):
            head = "t" if k == "ift" else "f"
            if node[2] is None:
                parts.append(f"{head}({text(node[1])})")
            else:
                parts.append(f"{head}({text(node[1])}|{text(node[2])})")
        elif k == "for":
            parts.append("F" + ("i" if node[1] else "") + f"({text(node[2])})")
        elif k == "while":
            parts.append(f"w({text(node[1])})")
        else:
            raise ValueError(k)
    return " ".join(parts)


def stats(flow: ShapeSeq, acc: Dict[str, int]) -> Tuple[int, int, bool, bool]:
    """
    Add the node kinds of ``flow`` to ``acc``.

    Return (number of nodes, nesting depth, has yield, has conditional or loop).
    """
    n = 0
    depth = 0
    has_yield = False
    has_branch = False
    for node in flow:
        k = node[0]
        n += 1
        if k == "cmd":
            acc["cmd"] = acc.get("cmd", 0) + 1
        elif k == "yield":
            acc["yield"] = acc.get("yield", 0) + 1
            has_yield = True
        else:
            has_branch = True
            if k in ("ift", "iff"):
                name = k if node[2] is None else k + "+else"
                subs = [node[1]] + ([node[2]] if node[2] is not None else [])
            elif k == "for":
                name = "for+init" if node[1] else "for"
                subs = [node[2]]
            else:
                name = "while"
                subs = [node[1]]
            acc[name] = acc.get(name, 0) + 1
            for sub in subs:
                sn, sd, sy, _ = stats(sub, acc)
                n += sn
                depth = max(depth, sd + 1)
                has_yield = has_yield or sy
            depth = max(depth, 1)
    return n, depth, has_yield, has_branch


def depth_of(flow: ShapeSeq) -> int:
    """Nesting depth of compound nodes (0 for a flat sequence of leaves)."""
    depth = 0
    for node in flow:
        k = node[0]
        if k in ("cmd", "yield"):
            continue
        if k in ("ift", "iff"):
            sub = depth_of(node[1])
            if node[2] is not None:
                sub = max(sub, depth_of(node[2]))
        elif k == "for":
            sub = depth_of(node[2])
        else:
            sub = depth_of(node[1])
        depth = max(depth, sub + 1)
    return depth


def build(flow: ShapeSeq, flow_module: Any) -> List[Any]:
    """Build the real ``aas_core_codegen.yielding.flow`` nodes for the shape."""
    counter = [0]

    def nid() -> int:
        counter[0] += 1
        return counter[0] - 1

    def seq(shapes: ShapeSeq) -> List[Any]:
        return [one(s) for s in shapes]

    def one(s: Shape) -> Any:
        k = s[0]
        if k == "cmd":
            return flow_module.command_from_text(f"T({nid()});")
        if k == "yield":
            return flow_module.Yield()
        if k in ("ift", "iff"):
            cls = flow_module.IfTrue if k == "ift" else flow_module.IfFalse
            cond = f"CI({nid()})"
            body = seq(s[1])
            if s[2] is None:
                return cls(cond, body)
            return cls(cond, body, seq(s[2]))
        if k == "for":
            init = f"T({nid()});" if s[1] else None
            cond = f"CL({nid()})"
            iteration = f"T({nid()});"
            body = seq(s[2])
            return flow_module.For(cond, iteration, body, init=init)
        if k == "while":
            cond = f"CL({nid()})"
            return flow_module.While(cond, seq(s[1]))
        raise ValueError(k)

    return seq(flow)


# ---------------------------------------------------------------------------
# probes
# ---------------------------------------------------------------------------


class Probe:
    """
    Scripted outcomes of the opaque conditions and the event trace.

    The first ``len(tape)`` condition evaluations (of any condition, in evaluation
    order) take their outcome from the tape; later evaluations return False for loop
    conditions (so every loop terminates) and ``if_default`` for if-conditions.
    """

    __slots__ = ("tape", "pos", "if_default", "trace", "limit")

    def __init__(self, tape: Sequence[int], if_default: bool, limit: int) -> None:
        self.tape = tape
        self.pos = 0
        self.if_default = if_default
        self.trace = []  # type: List[int]
        self.limit = limit

    def command(self, code: str) -> None:
        # "T(<id>);"
        self.trace.append(4 * int(code[2:-2]))

    def condition(self, code: str) -> bool:
        # "CI(<id>)" or "CL(<id>)"
        pos = self.pos
        if pos < len(self.tape):
            value = bool(self.tape[pos])
        elif code[1] == "L":
            value = False
        else:
            value = self.if_default
        self.pos = pos + 1
        self.trace.append(4 * int(code[3:-1]) + (2 if value else 1))
        return value


def decode(trace: Sequence[int]) -> str:
    """Readable form of an event trace."""
    parts = []
    for ev in trace:
        if ev == YIELD_EVENT:
            parts.append("Y")
        elif ev % 4 == 0:
            parts.append(f"T{ev // 4}")
        else:
            parts.append(f"C{ev // 4}={ev % 4 - 1}")
    return " ".join(parts)


def event_kind(trace: Sequence[int], i: int) -> str:
    if i >= len(trace):
        return "end"
    ev = trace[i]
    if ev == YIELD_EVENT:
        return "yield"
    return "command" if ev % 4 == 0 else "condition"


# ---------------------------------------------------------------------------
# structured interpreter: direct recursion, a generator that suspends at each Yield
# ---------------------------------------------------------------------------


def structured(flow: Sequence[Any], probe: Probe, fm: Any) -> Iterator[None]:
    """Run the real flow nodes; suspend (``yield``) at every ``Yield`` node."""
    for node in flow:
        cls = node.__class__
        if cls is fm.Command:
            probe.command(node.code)
        elif cls is fm.Yield:
            yield None
        elif cls is fm.IfTrue:
            if probe.condition(node.condition):
                yield from structured(node.body, probe, fm)
            elif node.or_else is not None:
                yield from structured(node.or_else, probe, fm)
        elif cls is fm.IfFalse:
            if not probe.condition(node.condition):
                yield from structured(node.body, probe, fm)
            elif node.or_else is not None:
                yield from structured(node.or_else, probe, fm)
        elif cls is fm.For:
            if node.init is not None:
                probe.command(node.init)
            while probe.condition(node.condition):
                yield from structured(node.body, probe, fm)
                probe.command(node.iteration)
        elif cls is fm.While:
            while probe.condition(node.condition):
                yield from structured(node.body, probe, fm)
        else:
            raise TypeError(f"unknown flow node {cls}")


def run_structured(flow: Sequence[Any], probe: Probe, fm: Any) -> List[int]:
    """Drive the structured generator to its end, resuming after every yield."""
    trace = probe.trace
    for _ in structured(flow, probe, fm):
        trace.append(YIELD_EVENT)
    return trace


# ---------------------------------------------------------------------------
# state machine over linear.Subroutine lists
# ---------------------------------------------------------------------------

OP_COMMAND, OP_IF, OP_JUMP, OP_YIELD, OP_NOOP = range(5)


class Program:
    """The subroutines decoded once (no semantics here), plus the static findings."""

    def __init__(self, subroutines: Sequence[Any], lm: Any) -> None:
        self.static_errors = []  # type: List[Tuple[str, str]]
        self.subs = []  # type: List[List[Tuple[Any, ...]]]
        self.index_of_label = {}  # type: Dict[int, int]
        self.labels = []  # type: List[int]
        self.last_statement = "none"
        self.statement_count = 0
        targets = []  # type: List[int]
        for i, sub in enumerate(subroutines):
            stmts = list(sub)
            if len(stmts) == 0:
                self.static_errors.append(("empty-subroutine", f"subroutine #{i}"))
                self.subs.append([])
                self.labels.append(-2)
                continue
            label = stmts[0].label
            self.labels.append(label if label is not None else -2)
            if label != i:
                self.static_errors.append(
                    ("labels-not-consecutive-from-0", f"subroutine #{i} has label {label!r}")
                )
            if label is not None and label not in self.index_of_label:
                self.index_of_label[label] = i
            elif label is not None:
                self.static_errors.append(("duplicate-label", f"label {label}"))
            decoded = []  # type: List[Tuple[Any, ...]]
            for j, st in enumerate(stmts):
                if j > 0 and st.label is not None:
                    self.static_errors.append(
                        ("label-inside-subroutine", f"subroutine #{i} statement {j}")
                    )
                cls = st.__class__
                if cls is lm.Command:
                    decoded.append((OP_COMMAND, st.code))
                elif cls is lm.If:
                    decoded.append((OP_IF, st.condition, st.on_true, st.on_false))
                    if st.on_true is not None:
                        targets.append(st.on_true)
                    if st.on_false is not None:
                        targets.append(st.on_false)
                elif cls is lm.Jump:
                    decoded.append((OP_JUMP, st.target))
                    targets.append(st.target)
                elif cls is lm.Yield:
                    decoded.append((OP_YIELD,))
                elif cls is lm.Noop:
                    decoded.append((OP_NOOP,))
                else:
                    self.static_errors.append(("unknown-statement", repr(cls)))
                self.last_statement = cls.__name__
                self.statement_count += 1
            self.subs.append(decoded)
        for t in targets:
            if t not in self.index_of_label:
                self.static_errors.append(("jump-target-missing", f"target {t!r}"))
                break


FINISHED = -1


class Machine:
    """
    Resumable state machine: the only state kept between calls is ``state`` (a label).

    Semantics, from the docstrings of the linear statement classes: a command runs;
    an ``If`` evaluates its condition and jumps to ``on_true`` / ``on_false`` when that
    target is given for the observed outcome, otherwise control falls through; a
    ``Jump`` continues at the subroutine with the target label; a ``Yield`` returns to
    the caller who resumes with the next subroutine; a ``Noop`` does nothing; falling
    off the end of a subroutine continues with the next one, falling off the last one
    ends the routine.
    """

    def __init__(self, program: Program) -> None:
        self.program = program
        self.state = 0 if program.subs else FINISHED

    def execute(self, probe: Probe) -> Optional[str]:
        """Run until the next yield or the end; return an error text or None."""
        program = self.program
        subs = program.subs
        index_of_label = program.index_of_label
        if self.state not in index_of_label:
            return f"resumed in state {self.state} which is no subroutine label"
        si = index_of_label[self.state]
        steps = 0
        limit = probe.limit
        while True:
            if si >= len(subs):
                self.state = FINISHED
                return None
            jumped = False
            for st in subs[si]:
                steps += 1
                if steps > limit:
                    return "step limit exceeded (no progress)"
                op = st[0]
                if op == OP_COMMAND:
                    probe.command(st[1])
                elif op == OP_IF:
                    target = st[2] if probe.condition(st[1]) else st[3]
                    if target is not None:
                        if target not in index_of_label:
                            return f"jump to missing label {target}"
                        si = index_of_label[target]
                        jumped = True
                        break
                elif op == OP_JUMP:
                    if st[1] not in index_of_label:
                        return f"jump to missing label {st[1]}"
                    si = index_of_label[st[1]]
                    jumped = True
                    break
                elif op == OP_YIELD:
                    probe.trace.append(YIELD_EVENT)
                    if si + 1 < len(subs):
                        self.state = program.labels[si + 1]
                    else:
                        self.state = FINISHED
                    return None
                # OP_NOOP: nothing
            if not jumped:
                si += 1


def run_machine(program: Program, probe: Probe) -> Tuple[List[int], Optional[str]]:
    """Call ``execute`` until the machine reports the end; return (trace, error)."""
    machine = Machine(program)
    calls = 0
    while machine.state != FINISHED:
        calls += 1
        if calls > probe.limit:
            return probe.trace, "call limit exceeded"
        err = machine.execute(probe)
        if err is not None:
            return probe.trace, err
        if len(probe.trace) > probe.limit:
            return probe.trace, "trace limit exceeded"
    return probe.trace, None
