"""setup_cmd: verify interpreters/toolchains; nothing is downloaded or built."""
import shutil
import sys


def main() -> int:
    from vf import env

    env.setup()
    import aas_core_codegen  # noqa
    import icontract, jsonschema, xmlschema, asttokens  # noqa

    print("aas_core_codegen from", aas_core_codegen.__file__)
    for tool in ("g++", "javac", "java", "node", "xmllint"):
        print(f"tool {tool}: {shutil.which(tool)}")
    return 0


if __name__ == "__main__":
    sys.exit(main())
