"""Environment set-up shared by all checks: paths, fresh TMPDIR, repo import."""
import atexit
import os
import pathlib
import shutil
import sys
import tempfile

VERIF = pathlib.Path(__file__).resolve().parent.parent
REPO = pathlib.Path(os.environ.get("VERIF_REPO", "/repo"))
GUARD = "AAS_CORE_CODEGEN_VERIF"
PY = "/venv/bin/python"

_SCRATCH = None


def scratch() -> pathlib.Path:
    """Return the private scratch directory of this process tree (created lazily)."""
    global _SCRATCH
    if _SCRATCH is None:
        inherited = os.environ.get("VF_SCRATCH_DIR")
        if inherited and pathlib.Path(inherited).is_dir():
            _SCRATCH = pathlib.Path(inherited)
        else:
            base = os.environ.get("VERIF_SCRATCH")
            if base is None:
                base = "/dev/shm" if os.path.isdir("/dev/shm") else "/tmp"
            os.makedirs(base, exist_ok=True)
            # NOTE: bypass tempfile.tempdir which we override below.
            _SCRATCH = pathlib.Path(
                tempfile.mkdtemp(prefix=f"vf-{os.getpid()}-", dir=base)
            )
            os.environ["VF_SCRATCH_DIR"] = str(_SCRATCH)
            owner = os.getpid()

            def _cleanup() -> None:
                if os.getpid() == owner:
                    shutil.rmtree(_SCRATCH, ignore_errors=True)

            atexit.register(_cleanup)
    return _SCRATCH


def setup() -> None:
    """
    Make ``aas_core_codegen`` import from REPO's working tree and isolate the cache.

    The pinned tree *always* uses the pickle cache under ``tempfile.gettempdir()``;
    a stale entry from older source would hide front-end changes, so every check runs
    with a private, fresh temp dir.
    """
    os.environ[GUARD] = "1"
    os.environ.setdefault("PYTHONHASHSEED", "0")
    tmp = scratch() / "tmp"
    tmp.mkdir(exist_ok=True)
    os.environ["TMPDIR"] = str(tmp)
    tempfile.tempdir = str(tmp)
    if str(REPO) not in sys.path:
        sys.path.insert(0, str(REPO))
    if str(VERIF) not in sys.path:
        sys.path.insert(0, str(VERIF))
    import aas_core_codegen  # noqa

    origin = pathlib.Path(aas_core_codegen.__file__).resolve()
    assert str(origin).startswith(str(REPO.resolve())), (
        f"aas_core_codegen imported from {origin}, expected under {REPO}"
    )


def new_dir(prefix: str = "d") -> pathlib.Path:
    return pathlib.Path(tempfile.mkdtemp(prefix=prefix + "-", dir=str(scratch())))


def child_env(**extra: str) -> dict:
    """Environment for subprocesses (fresh TMPDIR, repo on the path)."""
    env = dict(os.environ)
    env["PYTHONPATH"] = f"{REPO}:{VERIF}" + (
        ":" + env["PYTHONPATH"] if env.get("PYTHONPATH") else ""
    )
    env.update(extra)
    return env


def use_private_tmp() -> None:
    """
    Give *this process* its own temporary directory.

    The pinned tree always reads and writes the model cache under
    ``tempfile.gettempdir()``; worker processes of one check must not share (and wipe)
    one cache directory, or the harness itself manufactures cache races.
    """
    tmp = scratch() / f"tmp-{os.getpid()}"
    tmp.mkdir(exist_ok=True)
    os.environ["TMPDIR"] = str(tmp)
    tempfile.tempdir = str(tmp)
