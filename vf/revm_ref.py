"""
Reference interpreter for the regex virtual-machine programs of
``aas_core_codegen.intermediate.revm`` (used by check C18).

Written from the *documented* semantics of the instruction classes (their
docstrings), not from the C++ matcher:

* ``InstructionChar``   — match a single character,
* ``InstructionSet``    — match a set of characters (list of inclusive ranges),
* ``InstructionNotSet`` — match an out-of-set character,
* ``InstructionAny``    — match any character,
* ``InstructionMatch``  — stop the thread and signal that we found a match,
* ``InstructionJump``   — jump to the indicated position in the program,
* ``InstructionSplit``  — split in two threads, both jumping to different locations,
* ``InstructionEnd``    — match the end-of-input.

The program is a non-deterministic machine; it *accepts* a text when some thread
reaches ``match``.  Acceptance is decided by a Pike-style simulation (one set of
program counters per input position), so the interpreter always terminates; whether
the program contains a reachable cycle of non-consuming instructions (on which a
naive thread scheduler never finishes) is reported separately by
:func:`epsilon_cycle`.

Instructions are recognised by *class name* so that the module does not depend on
anything but the public shape of the program tree (``Node.children``,
``Leaf.instruction``).
"""
from typing import Any, List, Optional, Sequence, Tuple

# Compact internal form: (opcode, payload)
CHAR, SET, NOTSET, ANY, MATCH, JUMP, SPLIT, END = range(8)
OPNAMES = ["char", "set", "not-set", "any", "match", "jump", "split", "end"]

Instr = Tuple[int, Any]


class ProgramError(Exception):
    """The program is structurally invalid (the *kind* is a stable mechanism key)."""

    def __init__(self, kind: str, detail: str) -> None:
        super().__init__(f"{kind}: {detail}")
        self.kind = kind
        self.detail = detail


def flatten(root: Any) -> List[Tuple[Any, Optional[int]]]:
    """Return ``(instruction object, label)`` of every leaf in program order."""
    out: List[Tuple[Any, Optional[int]]] = []
    stack = [root]
    # iterative pre-order, children kept in order
    while stack:
        node = stack.pop()
        if hasattr(node, "instruction"):
            out.append((node.instruction, getattr(node, "label", None)))
        elif hasattr(node, "children"):
            stack.extend(reversed(list(node.children)))
        else:
            raise ProgramError(
                "tree/unknown-node", f"neither leaf nor node: {type(node).__name__}"
            )
    return out


def compile_program(root: Any) -> List[Instr]:
    """Convert the tree returned by ``revm.translate`` and check its structure."""
    leaves = flatten(root)
    prog: List[Instr] = []
    for instruction, _label in leaves:
        name = type(instruction).__name__
        if name == "InstructionChar":
            ch = instruction.character
            if not isinstance(ch, str) or len(ch) != 1:
                raise ProgramError("char/not-a-single-character", repr(ch))
            prog.append((CHAR, ord(ch)))
        elif name in ("InstructionSet", "InstructionNotSet"):
            ranges = []
            for rng in instruction.ranges:
                first, last = ord(rng.first), ord(rng.last)
                if first > last:
                    raise ProgramError("set/range-reversed", f"{first:#x}-{last:#x}")
                ranges.append((first, last))
            prog.append((SET if name == "InstructionSet" else NOTSET, tuple(ranges)))
        elif name == "InstructionAny":
            prog.append((ANY, None))
        elif name == "InstructionMatch":
            prog.append((MATCH, None))
        elif name == "InstructionJump":
            prog.append((JUMP, instruction.target))
        elif name == "InstructionSplit":
            prog.append((SPLIT, (instruction.first_target, instruction.second_target)))
        elif name == "InstructionEnd":
            prog.append((END, None))
        else:
            raise ProgramError("instruction/unknown-class", name)
    validate(prog)
    return prog


def validate(prog: Sequence[Instr]) -> None:
    """Assert target validity and that the program ends in ``match``."""
    n = len(prog)
    if n == 0:
        raise ProgramError("program/empty", "no instructions")
    if prog[-1][0] != MATCH:
        raise ProgramError(
            "program/does-not-end-in-match", f"last is {OPNAMES[prog[-1][0]]}"
        )
    for pc, (op, arg) in enumerate(prog):
        targets: Tuple[Any, ...] = ()
        if op == JUMP:
            targets = (arg,)
        elif op == SPLIT:
            targets = tuple(arg)
        for t in targets:
            if not isinstance(t, int) or isinstance(t, bool) or not 0 <= t < n:
                raise ProgramError(
                    f"{OPNAMES[op]}/target-out-of-program",
                    f"pc={pc} target={t!r} size={n}",
                )
        # a consuming instruction or ``end`` continues at pc + 1, which must exist
        if op in (CHAR, SET, NOTSET, ANY, END) and pc + 1 >= n:
            raise ProgramError(
                "program/falls-off-the-end", f"pc={pc} {OPNAMES[op]} is last"
            )


def label_mismatches(root: Any) -> int:
    """Count leaves whose label is set but differs from their index (informative)."""
    return sum(
        1
        for i, (_ins, label) in enumerate(flatten(root))
        if label is not None and label != i
    )


def _eps_successors(prog: Sequence[Instr], pc: int, at_end: bool) -> Tuple[int, ...]:
    op, arg = prog[pc]
    if op == JUMP:
        return (arg,)
    if op == SPLIT:
        return tuple(arg)
    if op == END and at_end:
        return (pc + 1,)
    return ()


def epsilon_cycle(prog: Sequence[Instr]) -> Optional[List[int]]:
    """
    Return a cycle of non-consuming instructions reachable from the start, or None.

    Reachability is over-approximated structurally (every consuming instruction is
    assumed passable), which is exact enough: the translator only produces code that
    is reachable for some input.
    """
    n = len(prog)
    # structurally reachable program counters
    reach = set()
    todo = [0]
    while todo:
        pc = todo.pop()
        if pc in reach or not 0 <= pc < n:
            continue
        reach.add(pc)
        op, _ = prog[pc]
        todo.extend(_eps_successors(prog, pc, True))
        if op in (CHAR, SET, NOTSET, ANY):
            todo.append(pc + 1)
    # cycle detection over the non-consuming edges: jump, split, and ``end`` (which
    # continues at pc + 1 without consuming once the input is exhausted, so that
    # ``($|a)*`` loops through it at the end of the input)
    WHITE, GREY, BLACK = 0, 1, 2
    colour = {pc: WHITE for pc in reach}
    for start in sorted(reach):
        if colour[start] != WHITE:
            continue
        path: List[int] = []
        stack: List[Tuple[int, int]] = [(start, 0)]
        colour[start] = GREY
        path.append(start)
        while stack:
            pc, i = stack[-1]
            succ = [s for s in _eps_successors(prog, pc, True) if s in colour]
            if i < len(succ):
                stack[-1] = (pc, i + 1)
                nxt = succ[i]
                if colour[nxt] == GREY:
                    return path[path.index(nxt):] + [nxt]
                if colour[nxt] == WHITE:
                    colour[nxt] = GREY
                    path.append(nxt)
                    stack.append((nxt, 0))
            else:
                colour[pc] = BLACK
                path.pop()
                stack.pop()
    return None


def _in_ranges(ranges: Sequence[Tuple[int, int]], code: int) -> bool:
    for first, last in ranges:
        if first <= code <= last:
            return True
    return False


def run(prog: Sequence[Instr], codes: Sequence[int]) -> bool:
    """
    Decide whether the program accepts the text given as a sequence of code units.

    Pike simulation: ``clist`` holds the program counters alive before consuming the
    character at the current position; each program counter is expanded at most once
    per position, so ε-cycles cannot make the simulation diverge.
    """
    n = len(prog)
    length = len(codes)

    def closure(seeds: Sequence[int], at_end: bool) -> Tuple[List[int], bool]:
        seen = [False] * n
        order: List[int] = []
        todo = list(seeds)
        while todo:
            pc = todo.pop()
            if seen[pc]:
                continue
            seen[pc] = True
            op, arg = prog[pc]
            if op == MATCH:
                return order, True
            if op == JUMP:
                todo.append(arg)
            elif op == SPLIT:
                todo.append(arg[1])
                todo.append(arg[0])
            elif op == END:
                if at_end:
                    todo.append(pc + 1)
            else:
                order.append(pc)
        return order, False

    seeds: List[int] = [0]
    for pos in range(length + 1):
        at_end = pos == length
        alive, matched = closure(seeds, at_end)
        if matched:
            return True
        if at_end or not alive:
            return False
        code = codes[pos]
        seeds = []
        for pc in alive:
            op, arg = prog[pc]
            if op == CHAR:
                ok = code == arg
            elif op == SET:
                ok = _in_ranges(arg, code)
            elif op == NOTSET:
                ok = not _in_ranges(arg, code)
            else:  # ANY
                ok = True
            if ok:
                seeds.append(pc + 1)
    return False


def listing(prog: Sequence[Instr]) -> List[str]:
    """Human-readable listing for witnesses."""
    out = []
    for pc, (op, arg) in enumerate(prog):
        if op == CHAR:
            text = f"char U+{arg:04X}"
        elif op in (SET, NOTSET):
            text = OPNAMES[op] + " " + ",".join(
                f"U+{a:04X}" if a == b else f"U+{a:04X}-U+{b:04X}" for a, b in arg
            )
        elif op == JUMP:
            text = f"jump {arg}"
        elif op == SPLIT:
            text = f"split {arg[0]}, {arg[1]}"
        else:
            text = OPNAMES[op]
        out.append(f"{pc}: {text}")
    return out


def utf16_units(text: str) -> List[int]:
    """Return the UTF-16 code units of ``text`` (lone surrogates pass through)."""
    out: List[int] = []
    for ch in text:
        code = ord(ch)
        if code >= 0x10000:
            code -= 0x10000
            out.append(0xD800 + (code >> 10))
            out.append(0xDC00 + (code & 0x3FF))
        else:
            out.append(code)
    return out
