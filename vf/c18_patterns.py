"""
Workload of check C18: anchored regular expressions and test strings.

* :func:`gen_pattern` — compact random generator of anchored patterns ``^...$`` in
  the dialect understood by ``aas_core_codegen.parse.retree`` (literals incl.
  escapes, ``\\xHH \\uHHHH \\UHHHHHHHH``, raw non-ASCII and astral characters, sets
  with ranges / complements / dashes, groups, alternations incl. empty branches,
  quantifiers ``* + ? {n} {n,} {n,m} {,m}``, nesting incl. nested unbounded
  quantifiers, ``$`` inside, ``.*$`` suffix).
* :func:`corpus_patterns` — patterns shipped with the repository.
* :func:`strings_for` — strings inside the language (sampled from *Python's own*
  parse tree of the pattern, ``re._parser``), their one-edit neighbours and
  characters next to every range boundary.  No string contains a line break.

Nothing here uses the repository's regex code; acceptance by the front end is
checked by the caller.
"""
import ast
import random
import re
import warnings
from typing import Any, Dict, List, Optional, Sequence, Set, Tuple

try:  # Python >= 3.11
    import re._parser as sre_parse  # type: ignore
    import re._constants as sre_constants  # type: ignore
except ImportError:  # pragma: no cover
    import sre_parse  # type: ignore
    import sre_constants  # type: ignore

LINE_BREAKS = set("\n\r\x0b\x0c\x1c\x1d\x1e\x85\u2028\u2029")

# -- generator -------------------------------------------------------------------

PLAIN = list("abcxyzABZ0159") + list("-_:/@=,;!%&~'\"<> }") + ["é", "ß", "€", "中", "ÿ", "Ā"]
ESCAPED_OUTSIDE = [r"\.", r"\#", r"\^", r"\$", r"\(", r"\)", r"\[", r"\]", r"\\", r"\*", r"\+", r"\?", r"\t"]
ESCAPED_BREAKS = [r"\n", r"\r", r"\f", r"\v"]
ASTRAL_RAW = ["\U00010000", "\U0001F600", "\U0010FFFF", "\U00020000"]
BMP_POINTS = [0x00, 0x09, 0x1F, 0x20, 0x7E, 0x7F, 0x80, 0x9F, 0xA0, 0xFE, 0xFF, 0x100,
              0x7FF, 0x800, 0xD7FF, 0xE000, 0xFFFD, 0xFFFE, 0xFFFF]
ASTRAL_POINTS = [0x10000, 0x10001, 0x103FF, 0x10400, 0x1F600, 0x1FFFF, 0x20000,
                 0xFFFFF, 0x100000, 0x10FFFE, 0x10FFFF]
SURROGATES = [0xD800, 0xDBFF, 0xDC00, 0xDFFF]


def _enc(code: int, rng: random.Random) -> str:
    """Spell a code point as an escape."""
    if code <= 0xFF and rng.random() < 0.7:
        return "\\x%02x" % code if rng.random() < 0.5 else "\\x%02X" % code
    if code <= 0xFFFF:
        return "\\u%04x" % code if rng.random() < 0.5 else "\\u%04X" % code
    return "\\U%08x" % code if rng.random() < 0.5 else "\\U%08X" % code


def _set_char(code: int, rng: random.Random) -> str:
    """Spell one code point inside a character set."""
    ch = chr(code)
    if ch in "[]^-\\":
        return "\\" + ch
    if ch == "\t" and rng.random() < 0.5:
        return r"\t"
    if code < 0x20 or 0x7F <= code < 0xA0 or 0xD800 <= code <= 0xDFFF or ch in LINE_BREAKS:
        return _enc(code, rng)
    if code > 0xFFFF:
        return ch if rng.random() < 0.4 else _enc(code, rng)
    if code > 0x7E:
        return ch if rng.random() < 0.5 else _enc(code, rng)
    if rng.random() < 0.1:
        return _enc(code, rng)
    return ch


def _gen_set(rng: random.Random, feats: Set[str]) -> str:
    complement = rng.random() < 0.3
    k = rng.choice([1, 1, 2, 2, 3, 4, 6, 9])
    # pools of cut points; complemented sets must stay in the BMP
    roll = rng.random()
    if roll < 0.55:
        pool = list(range(0x20, 0x7F))
    elif roll < 0.8 or complement:
        pool = list(range(0x20, 0x7F)) + BMP_POINTS + [0x3B1, 0x3C9, 0x4E2D, 0x20AC]
    else:
        pool = list(range(0x30, 0x7B)) + BMP_POINTS + ASTRAL_POINTS
        feats.add("set-astral")
    if rng.random() < 0.03:
        pool = pool + SURROGATES
    points = sorted(set(rng.choice(pool) for _ in range(2 * k)))
    items: List[str] = []
    i = 0
    lead_dash = trail_dash = False
    while i < len(points):
        a = points[i]
        if a == 0x2D and rng.random() < 0.7:  # '-' as leading/trailing raw dash
            if rng.random() < 0.5:
                lead_dash = True
            else:
                trail_dash = True
            i += 1
            continue
        if i + 1 < len(points) and rng.random() < 0.55:
            b = points[i + 1]
            if complement and b > 0xFFFF:
                b = a
            if a < 0x10000 <= b:
                # a range from the BMP into an astral plane is refused by the UTF-16
                # rewriting (property C17); kept out of the random workload, see PROBES
                b = a
            items.append(_set_char(a, rng) + "-" + _set_char(b, rng))
            feats.add("set-range")
            i += 2
        else:
            items.append(_set_char(a, rng))
            i += 1
    rng.shuffle(items)
    if lead_dash and trail_dash:
        trail_dash = False
    if not items and not (lead_dash or trail_dash):
        items = ["a"]
    body = ("-" if lead_dash else "") + "".join(items) + ("-" if trail_dash else "")
    if lead_dash or trail_dash:
        feats.add("set-raw-dash")
    feats.add("set-complement" if complement else "set")
    return ("[^" if complement else "[") + body + "]"


def _gen_literal(rng: random.Random, feats: Set[str]) -> str:
    roll = rng.random()
    if roll < 0.62:
        ch = rng.choice(PLAIN)
        if ord(ch) > 0x7F:
            feats.add("literal-raw-nonascii")
        return ch
    if roll < 0.74:
        feats.add("literal-escaped-meta")
        return rng.choice(ESCAPED_OUTSIDE)
    if roll < 0.77:
        feats.add("literal-line-break-escape")
        return rng.choice(ESCAPED_BREAKS)
    if roll < 0.86:
        feats.add("literal-hex-escape")
        return _enc(rng.choice(BMP_POINTS + [0x41, 0x61, 0x30, 0x2E, 0x5C, 0x27]), rng)
    if roll < 0.93:
        feats.add("literal-astral-escape")
        return "\\U%08x" % rng.choice(ASTRAL_POINTS)
    if roll < 0.98:
        feats.add("literal-astral-raw")
        return rng.choice(ASTRAL_RAW)
    feats.add("literal-surrogate-escape")
    return "\\u%04x" % rng.choice(SURROGATES)


def _gen_quantifier(rng: random.Random, feats: Set[str]) -> str:
    roll = rng.random()
    if roll < 0.22:
        feats.add("q-star")
        return "*"
    if roll < 0.40:
        feats.add("q-plus")
        return "+"
    if roll < 0.58:
        feats.add("q-opt")
        return "?"
    if roll < 0.70:
        n = rng.choice([0, 1, 1, 2, 2, 3, 4, 7])
        feats.add("q-exact" if n else "q-exact-0")
        return "{%d}" % n
    if roll < 0.80:
        n = rng.choice([0, 1, 1, 2, 3, 5])
        feats.add("q-min-only")
        return "{%d,}" % n
    if roll < 0.94:
        n = rng.choice([0, 0, 1, 1, 2, 3])
        m = n + rng.choice([0, 1, 1, 2, 3, 5])
        feats.add("q-min-max" if n != m else "q-min-max-equal")
        if m == 0:
            feats.add("q-0-0")
        return "{%d,%d}" % (n, m)
    m = rng.choice([0, 1, 2, 3, 4])
    feats.add("q-max-only")
    return "{,%d}" % m


def _gen_atom(rng: random.Random, depth: int, feats: Set[str]) -> Tuple[str, bool]:
    """Return (text, is_group)."""
    roll = rng.random()
    if depth > 0 and roll < 0.24:
        feats.add("group")
        return "(" + _gen_union(rng, depth - 1, feats, in_group=True) + ")", True
    if roll < 0.46:
        return _gen_set(rng, feats), False
    if roll < 0.53:
        feats.add("dot")
        return ".", False
    if roll < 0.55 and depth < 3:
        feats.add("end-inside")
        return "$", False
    return _gen_literal(rng, feats), False


def _gen_concat(rng: random.Random, depth: int, feats: Set[str], allow_empty: bool) -> str:
    n = rng.choice([1, 1, 2, 2, 3, 4]) if depth < 3 else rng.choice([1, 2, 3, 4, 5, 7])
    if allow_empty and rng.random() < 0.06:
        feats.add("empty-branch")
        return ""
    parts = []
    for _ in range(n):
        atom, is_group = _gen_atom(rng, depth, feats)
        if atom != "$" and rng.random() < (0.5 if is_group else 0.33):
            q = _gen_quantifier(rng, feats)
            if is_group and q in ("*", "+") or (q.endswith(",}")):
                if is_group and re.search(r"[*+]\)?$|,\}\)?$", atom):
                    feats.add("nested-unbounded")
            atom += q
        parts.append(atom)
    return "".join(parts)


def _gen_union(rng: random.Random, depth: int, feats: Set[str], in_group: bool) -> str:
    k = rng.choice([1, 1, 2, 2, 3, 4]) if in_group else 1
    if k > 1:
        feats.add("alternation")
    return "|".join(
        _gen_concat(rng, depth, feats, allow_empty=in_group) for _ in range(k)
    )


NESTED_TEMPLATES = [
    "({A}*)*", "({A}+)*", "({A}*)+", "({A}?)*", "({A}*|{B})*", "(({A}*)*)*", "({A}|{B}*)+",
    "({A}{{0,2}})*", "({A}*{B}*)*", "({A}?{B}?){{2,}}", "(({A}|)*{B})*", "({A}*){{1,}}",
    "({A}{{0}})*", "(()|{A})*", "({A}*)?{B}", "(({A}+)?)+",
]


def gen_pattern(rng: random.Random) -> Tuple[str, Set[str]]:
    """Return an anchored pattern and the set of construct names it was built from."""
    feats: Set[str] = set()
    roll = rng.random()
    if roll < 0.08:
        a = rng.choice(["a", "b", "[ab]", "[^a]", ".", "\\U00010000", "é"])
        b = rng.choice(["b", "c", "[0-9]", "x"])
        body = rng.choice(NESTED_TEMPLATES).format(A=a, B=b)
        if rng.random() < 0.5:
            body = _gen_concat(rng, 0, feats, False) + body
        if rng.random() < 0.5:
            body += _gen_concat(rng, 0, feats, False)
        feats.add("nested-unbounded")
    else:
        depth = rng.choice([0, 1, 1, 2, 2, 3])
        body = _gen_concat(rng, depth, feats, allow_empty=False)
        if depth >= 1 and rng.random() < 0.25:
            # a top-level alternation must be wrapped to keep the pattern anchored
            body = "(" + body + "|" + _gen_concat(rng, depth - 1, feats, True) + ")"
            feats.add("alternation")
            feats.add("group")
    roll = rng.random()
    if roll < 0.07:
        body += ".*"
        feats.add("arbitrary-suffix")
    elif roll < 0.10:
        body += "." + rng.choice(["+", "?", "{1,}", "{2,}", "{0,1}", "{,3}", "{0,}"])
        feats.add("quantified-dot-suffix")
    return "^" + body + "$", feats


UNBOUNDED_RE = re.compile(r"(?<!\\)[*+]|,\}")


def gen_tame_pattern(rng: random.Random) -> Tuple[str, Set[str]]:
    """
    Like :func:`gen_pattern`, but bounded in size and in the number of unbounded
    quantifiers so that Python's backtracking matcher (one of the oracles) stays fast.
    """
    while True:
        pattern, feats = gen_pattern(rng)
        if len(pattern) <= 90 and len(UNBOUNDED_RE.findall(pattern)) <= 4:
            return pattern, feats


FIXED = [
    "^$", "^a$", "^.$", "^.*$", "^a.*$", "^a.+$", "^.+$", "^a.{2,}$", "^(a|b).{1,}$", "^a.?$",
    "^a.{0,2}$", "^a(.*)$", "^a[^b]*$", "^.*.*$", "^(a|b)*.*$", "^a*$", "^a+$", "^a?$", "^ab$",
    "^(a|b)$", "^(a|b|c)$", "^[a-b]$", "^[^a-b]$", "^0x[A-Fa-f0-9]$", "^[A-Fa-f0-9]$",
    "^a{3}$", "^a{2,}$", "^a{2,4}$", "^a{,2}$", "^a{0}$", "^a{0,0}b$", "^a{1}$", "^a{1,1}$",
    "^(ab){2,3}$", "^(a|bc){1,2}d$", "^(a*)*$", "^(a+)+$", "^(a|b*)*c$", "^((a*)*)*$",
    "^(a?){3}$", "^(a{2}){2}$", "^(a{2,3}){2,3}$", "^a{0,1}$",
    "^[-a]$", "^[a-]$", "^[\\-a]$", "^[\\^a]$", "^[\\]a]$", "^[\\[a]$", "^[\\\\a]$",
    "^[^\\x00-\\x1f]$", "^[\\x20-\\x7e]*$", "^[\\u0100-\\uffff]$", "^[\\U00010000-\\U0010ffff]$",
    "^\\U00010000$", "^\\U0010ffff+$", "^(\\U00010000|something)$", "^[^\\ud800-\\udfff]$",
    "^a$b$", "^(a$|b)$", "^a($|b)*c$", "^(a|b$)c*$", "^a$$", "^a(b|c)d(e|f)*$", "^(a|ab)(c|bcd)(d*)$",
    "^x(a|b|c|d|e|f|g|h)y$", "^((a)|(b))+$", "^(a|(b|(c|d)))$", "^a.b$", "^a.+b$", "^[a-zA-Z0-9_]+@[a-z]+\\.[a-z]{2,3}$",
    "^-?(0|[1-9][0-9]*)(\\.[0-9]+)?([eE][+-]?[0-9]+)?$",
    "^[\\t\\n\\r -\\ud7ff\\ue000-\\ufffd\\U00010000-\\U0010ffff]*$",
]

# Probes of constructs the front end accepts but the pinned translator is known or
# suspected to refuse (kept few; each is reported by mechanism).
PROBES = [
    "^(^a)$", "^a(^b)$", "^(^)a$", "^(a|^b)$",          # start anchor not in first position
    "^a+?$", "^a*?b$", "^(a|b)??$", "^a{1,2}?$",        # non-greedy quantifiers
    "^(|a)$", "^(a|)$", "^()$", "^(a||b)$", "^a()b$",   # empty branches / groups
    "^[a-\\U00010000]$", "^[^\\U00010000]$",             # UTF-16 rewriting (C17)
]


# Patterns whose emitted pattern.cpp is compiled on its own (syntax only).
COMPILE_PROBES = [
    "^(a*/ )$",   # comment text ends with a blank and contains the end of a block comment
]


def corpus_patterns(repo: Any) -> List[Tuple[str, str]]:
    """Return ``(origin, pattern)`` for the patterns shipped with the repository."""
    out: List[Tuple[str, str]] = []
    base = repo / "dev" / "test_data"
    for path in sorted((base / "intermediate_revm").glob("**/pattern.regex")):
        try:
            out.append((f"intermediate_revm/{path.parent.name}", path.read_text("utf-8")))
        except (OSError, UnicodeDecodeError):
            pass
    for path in sorted((base / "common_meta_models").glob("*.py")) + sorted(
        base.glob("**/pattern_verification/**/meta_model.py")
    ):
        try:
            out.extend(
                (f"{path.parent.name}/{path.name}:{name}", pat)
                for name, pat in patterns_of_meta_model(path.read_text("utf-8"))
            )
        except (OSError, UnicodeDecodeError):
            pass
    seen: Set[str] = set()
    uniq = []
    for origin, pat in out:
        if pat not in seen:
            seen.add(pat)
            uniq.append((origin, pat))
    return uniq


def patterns_of_meta_model(text: str) -> List[Tuple[str, str]]:
    """
    Evaluate the ``@verification`` functions of a meta-model that call ``match`` and
    capture the pattern they pass (the meta-model is Python; we simply run it).
    """
    try:
        tree = ast.parse(text)
    except (SyntaxError, ValueError):
        return []
    out = []
    for node in tree.body:
        if not isinstance(node, ast.FunctionDef):
            continue
        decos = [
            (d.func if isinstance(d, ast.Call) else d) for d in node.decorator_list
        ]
        if not any(isinstance(d, ast.Name) and d.id == "verification" for d in decos):
            continue
        if not any(
            isinstance(n, ast.Call) and isinstance(n.func, ast.Name) and n.func.id == "match"
            for n in ast.walk(node)
        ):
            continue
        captured: List[str] = []

        def match(pattern: str, _text: str, captured=captured) -> Optional[str]:
            captured.append(pattern)
            return None

        node.decorator_list = []
        module = ast.Module(body=[node], type_ignores=[])
        ast.fix_missing_locations(module)
        namespace: Dict[str, Any] = {"match": match}
        try:
            exec(compile(module, "<meta-model>", "exec"), namespace)  # noqa: S102
            namespace[node.name]("")
        except Exception:  # noqa
            continue
        if len(captured) == 1 and isinstance(captured[0], str):
            out.append((node.name, captured[0]))
    return out


# -- python-side view of a pattern --------------------------------------------------


def python_compile(pattern: str) -> Optional["re.Pattern[str]"]:
    """Compile with Python; None if Python rejects it or warns about it."""
    with warnings.catch_warnings():
        warnings.simplefilter("error")
        try:
            return re.compile(pattern)
        except (re.error, Warning, OverflowError, RecursionError, ValueError):
            return None


def _sre_tree(pattern: str) -> Any:
    with warnings.catch_warnings():
        warnings.simplefilter("ignore")
        return sre_parse.parse(pattern)


MAXREPEAT = sre_constants.MAXREPEAT
_OP = sre_constants


def _collect(tree: Any, singles: Set[int], bounds: Set[int]) -> None:
    """Collect literal code points and range boundaries of a pattern."""
    for op, arg in tree:
        if op is _OP.LITERAL or op is _OP.NOT_LITERAL:
            singles.add(arg)
            bounds.update((arg - 1, arg + 1))
        elif op is _OP.IN:
            for iop, iarg in arg:
                if iop is _OP.LITERAL:
                    singles.add(iarg)
                    bounds.update((iarg - 1, iarg + 1))
                elif iop is _OP.RANGE:
                    lo, hi = iarg
                    singles.update((lo, hi))
                    bounds.update((lo - 1, lo + 1, hi - 1, hi + 1, (lo + hi) // 2))
        elif op is _OP.BRANCH:
            for alt in arg[1]:
                _collect(alt, singles, bounds)
        elif op is _OP.SUBPATTERN:
            _collect(arg[3], singles, bounds)
        elif op in (_OP.MAX_REPEAT, _OP.MIN_REPEAT):
            _collect(arg[2], singles, bounds)
        elif hasattr(_OP, "POSSESSIVE_REPEAT") and op is _OP.POSSESSIVE_REPEAT:
            _collect(arg[2], singles, bounds)


def covers_surrogates(pattern: str) -> bool:
    """
    Tell whether a literal, a set or a complemented set / dot of the pattern can match a
    surrogate code point (then a UTF-16 engine and a code point engine cannot agree
    on astral text, whatever the translation does).
    """

    def walk(tree: Any) -> bool:
        for op, arg in tree:
            if op is _OP.LITERAL:
                if 0xD800 <= arg <= 0xDFFF:
                    return True
            elif op in (_OP.NOT_LITERAL, _OP.ANY):
                return True
            elif op is _OP.IN:
                negate = any(iop is _OP.NEGATE for iop, _ in arg)
                hit = False
                for iop, iarg in arg:
                    if iop is _OP.LITERAL and 0xD800 <= iarg <= 0xDFFF:
                        hit = True
                    elif iop is _OP.RANGE and iarg[0] <= 0xDFFF and iarg[1] >= 0xD800:
                        hit = True
                if negate or hit:
                    # a complemented set either matches surrogates or names them
                    return True
            elif op is _OP.BRANCH:
                if any(walk(alt) for alt in arg[1]):
                    return True
            elif op is _OP.SUBPATTERN:
                if walk(arg[3]):
                    return True
            elif op in (_OP.MAX_REPEAT, _OP.MIN_REPEAT):
                if walk(arg[2]):
                    return True
        return False

    return walk(_sre_tree(pattern))


def _usable(code: int) -> bool:
    return 0 <= code <= 0x10FFFF and chr(code) not in LINE_BREAKS


FILLER = [ord(c) for c in "aZ0 ~"] + [0xE9, 0x4E2D, 0xD7FF, 0xE000, 0xFFFF, 0x10000, 0x10FFFF, 0x7F, 0x01]


def _sample_in(items: Sequence[Any], rng: random.Random, alphabet: Sequence[int]) -> Optional[int]:
    negate = False
    positive: List[Tuple[int, int]] = []
    for iop, iarg in items:
        if iop is _OP.NEGATE:
            negate = True
        elif iop is _OP.LITERAL:
            positive.append((iarg, iarg))
        elif iop is _OP.RANGE:
            positive.append(tuple(iarg))  # type: ignore
        else:
            return None  # categories are not in the dialect
    if not negate:
        if not positive:
            return None
        for _ in range(8):
            lo, hi = rng.choice(positive)
            code = rng.choice([lo, hi, rng.randint(lo, hi), min(lo + 1, hi), max(hi - 1, lo)])
            if _usable(code):
                return code
        return None
    for _ in range(12):
        code = rng.choice(list(alphabet) + FILLER)
        if _usable(code) and not any(lo <= code <= hi for lo, hi in positive):
            return code
    return None


class _Dead(Exception):
    pass


def _sample(tree: Any, rng: random.Random, alphabet: Sequence[int], out: List[int], rep_cap: int) -> None:
    """Append a random member of the language of ``tree`` to ``out`` (best effort)."""
    for op, arg in tree:
        if op is _OP.LITERAL:
            if not _usable(arg):
                raise _Dead()
            out.append(arg)
        elif op is _OP.NOT_LITERAL:
            cands = [c for c in list(alphabet) + FILLER if c != arg and _usable(c)]
            out.append(rng.choice(cands))
        elif op is _OP.ANY:
            cands = [c for c in list(alphabet) + FILLER if _usable(c)]
            out.append(rng.choice(cands))
        elif op is _OP.IN:
            code = _sample_in(arg, rng, alphabet)
            if code is None:
                raise _Dead()
            out.append(code)
        elif op is _OP.BRANCH:
            _sample(rng.choice(arg[1]), rng, alphabet, out, rep_cap)
        elif op is _OP.SUBPATTERN:
            _sample(arg[3], rng, alphabet, out, rep_cap)
        elif op in (_OP.MAX_REPEAT, _OP.MIN_REPEAT):
            lo, hi, sub = arg
            if hi is MAXREPEAT or hi == MAXREPEAT:
                hi = lo + rep_cap
            count = rng.choice([lo, hi, rng.randint(lo, hi), min(lo + 1, hi)])
            for _ in range(count):
                _sample(sub, rng, alphabet, out, rep_cap)
        elif op is _OP.AT:
            # ``^`` / ``$``: positions are checked by the oracle, not by the sampler
            continue
        else:
            raise _Dead()


def strings_for(pattern: str, rng: random.Random, want: int, max_len: int = 14) -> List[str]:
    """
    Return up to ``want`` distinct strings without line breaks: members of the
    language, one-edit neighbours, boundary characters, and a few fixed strings.
    """
    tree = _sre_tree(pattern)
    singles: Set[int] = set()
    bounds: Set[int] = set()
    _collect(tree, singles, bounds)
    alphabet = sorted(c for c in singles | bounds if _usable(c))
    if not alphabet:
        alphabet = [ord("a")]
    edit_pool = alphabet + FILLER

    result: List[str] = []
    seen: Set[str] = set()

    def push(codes: Sequence[int]) -> None:
        if len(codes) > max_len:
            return
        text = "".join(map(chr, codes))
        if text in seen or any(ch in LINE_BREAKS for ch in text):
            return
        seen.add(text)
        result.append(text)

    push([])
    members: List[List[int]] = []
    attempts = 0
    target_members = max(4, want // 3)
    while len(members) < target_members and attempts < target_members * 4:
        attempts += 1
        out: List[int] = []
        try:
            _sample(tree, rng, alphabet, out, rep_cap=rng.choice([0, 1, 2, 3]))
        except _Dead:
            continue
        if len(out) <= max_len:
            members.append(out)
            push(out)
    # one-edit neighbours of members
    for base in members:
        if len(result) >= want:
            break
        for _ in range(3):
            codes = list(base)
            kind = rng.randrange(4)
            if kind == 0 and codes:
                del codes[rng.randrange(len(codes))]
            elif kind == 1:
                codes.insert(rng.randint(0, len(codes)), rng.choice(edit_pool))
            elif kind == 2 and codes:
                i = rng.randrange(len(codes))
                codes[i] = rng.choice(edit_pool)
            elif kind == 3 and codes:
                i = rng.randrange(len(codes))
                codes[i] = codes[i] + rng.choice([-1, 1])
                if not _usable(codes[i]):
                    continue
            else:
                codes.append(rng.choice(edit_pool))
            push(codes)
    # single boundary characters and short words over the alphabet
    for code in rng.sample(alphabet, min(len(alphabet), max(4, want // 6))):
        push([code])
    while len(result) < want and attempts < want * 8:
        attempts += 1
        n = rng.choice([1, 2, 2, 3, 4, 6])
        push([rng.choice(edit_pool) for _ in range(n)])
    return result[:want]
