"""
Declaration extraction from generated files (check C21).

``decls_of(path)`` returns a list of ``Decl(scope, kind, name, line)``; a name that is
declared twice in a scope appears twice.  Exact extractors: Python (``ast``), JSON
(duplicate-key aware), XSD (ElementTree).  Heuristic extractors over the token streams of
``vf.lexers``: C#, TypeScript, Go, C++, Java.  The heuristic extractors are only ever used
*differentially* (the same extractor over the output for a near-collision model and for its
collision-free control), so an imprecision shows up on both sides and cancels.
"""
import ast
import collections
import json
import pathlib
import xml.etree.ElementTree as ET
from typing import Dict, List, NamedTuple, Optional, Sequence, Tuple

from vf import lexers


class Decl(NamedTuple):
    scope: str
    kind: str
    name: str
    line: int


# ---------------------------------------------------------------------------------
# Python
# ---------------------------------------------------------------------------------

def _is_accessor_or_overload(node: ast.AST) -> bool:
    for deco in getattr(node, "decorator_list", []):
        if isinstance(deco, ast.Attribute) and deco.attr in ("setter", "getter", "deleter"):
            return True
        if isinstance(deco, ast.Name) and deco.id == "overload":
            return True
        if isinstance(deco, ast.Attribute) and deco.attr == "overload":
            return True
    return False


def python_decls(path: pathlib.Path) -> List[Decl]:
    tree = ast.parse(path.read_bytes(), filename=str(path))
    result: List[Decl] = []

    def body(scope: str, statements: Sequence[ast.stmt]) -> None:
        for node in statements:
            if isinstance(node, (ast.FunctionDef, ast.AsyncFunctionDef)):
                if not _is_accessor_or_overload(node):
                    result.append(Decl(scope, "def", node.name, node.lineno))
                args = node.args
                for a in args.posonlyargs + args.args + args.kwonlyargs:
                    result.append(Decl(f"{scope}/{node.name}()", "param", a.arg, a.lineno))
            elif isinstance(node, ast.ClassDef):
                result.append(Decl(scope, "class", node.name, node.lineno))
                body(f"{scope}/{node.name}", node.body)
            elif isinstance(node, ast.Assign):
                for target in node.targets:
                    if isinstance(target, ast.Name):
                        result.append(Decl(scope, "assign", target.id, node.lineno))
            elif isinstance(node, ast.AnnAssign) and isinstance(node.target, ast.Name):
                result.append(Decl(scope, "assign", node.target.id, node.lineno))
            elif isinstance(node, (ast.If, ast.Try, ast.With)):
                for field in ("body", "orelse", "finalbody"):
                    body(scope, getattr(node, field, []) or [])

    body("", tree.body)

    # dictionary displays with constant keys (dispatch tables keyed by generated names),
    # scoped by the enclosing definition and their ordinal in it (stable under renaming)
    def dicts(scope: str, node: ast.AST, counter: List[int]) -> None:
        for child in ast.iter_child_nodes(node):
            if isinstance(child, (ast.FunctionDef, ast.AsyncFunctionDef, ast.ClassDef)):
                dicts(f"{scope}/{child.name}", child, [0])
                continue
            if isinstance(child, ast.Dict):
                counter[0] += 1
                for key in child.keys:
                    if isinstance(key, ast.Constant) and isinstance(key.value, str):
                        result.append(Decl(f"{scope}/dict#{counter[0]}", "key", key.value, key.lineno))
                    elif isinstance(key, ast.Attribute):
                        result.append(Decl(f"{scope}/dict#{counter[0]}", "key", ast.unparse(key), key.lineno))
            dicts(scope, child, counter)

    dicts("", tree, [0])
    return result


# ---------------------------------------------------------------------------------
# JSON / XSD
# ---------------------------------------------------------------------------------

def json_decls(path: pathlib.Path) -> List[Decl]:
    """Every key of every object, scoped by the JSON pointer of the object (duplicates kept)."""
    result: List[Decl] = []

    class PairList(list):
        pass

    raw = json.loads(path.read_text(encoding="utf-8"), object_pairs_hook=PairList)

    def descend(node, pointer: str) -> None:
        if isinstance(node, PairList):
            for k, v in node:
                result.append(Decl(pointer or "/", "key", k, 0))
                descend(v, f"{pointer}/{k}")
        elif isinstance(node, list):
            for i, v in enumerate(node):
                descend(v, f"{pointer}/{i}")

    descend(raw, "")
    return result


XS = "{http://www.w3.org/2001/XMLSchema}"


def xsd_decls(path: pathlib.Path) -> List[Decl]:
    root = ET.parse(str(path)).getroot()
    result: List[Decl] = []
    for child in root:
        tag = child.tag.replace(XS, "xs:")
        name = child.get("name")
        if name is not None:
            # XSD: one symbol space per component kind (types share one)
            space = "type" if tag in ("xs:complexType", "xs:simpleType") else tag
            result.append(Decl(f"schema/{space}", space, name, 0))
            for sub in child.iter():
                if sub is child:
                    continue
                sub_name = sub.get("name")
                if sub_name is not None and sub.tag == XS + "element":
                    result.append(Decl(f"{tag}:{name}", "element", sub_name, 0))
                if sub.tag == XS + "enumeration" and sub.get("value") is not None:
                    result.append(Decl(f"{tag}:{name}", "enumeration", sub.get("value"), 0))
    return result


# ---------------------------------------------------------------------------------
# Brace languages
# ---------------------------------------------------------------------------------

TYPE_KEYWORDS = {"class", "interface", "struct", "record"}
MODIFIERS = {
    "public", "private", "protected", "internal", "static", "readonly", "abstract", "async",
    "declare", "export", "default", "override", "virtual", "sealed", "final", "const", "new",
    "partial", "unsafe", "extern", "inline", "explicit", "constexpr", "synchronized", "native",
    "transient", "volatile", "function", "var", "let",
}
NOT_NAMES = {
    "if", "for", "while", "switch", "catch", "return", "throw", "using", "import", "package",
    "else", "do", "try", "finally", "lock", "foreach", "typeof", "sizeof", "operator", "where",
    "extends", "implements", "throws", "base", "this", "super",
}


def _significant(tokens: Sequence[lexers.Token]) -> List[lexers.Token]:
    return [t for t in tokens if t.kind not in ("comment", "doc", "directive")]


def brace_decls(tokens: Sequence[lexers.Token], lang: str, file_scope: str) -> List[Decl]:
    """
    Heuristic scanner for C#, Java, C++ ("name-last": ``Type name``) and TypeScript
    ("name-first": ``name: Type``).
    """
    name_first = lang == "typescript"
    modifiers = MODIFIERS | ({"type", "get", "set"} if name_first else set())
    toks = _significant(tokens)
    result: List[Decl] = []
    # scope stack entries: [kind, name, enum literals finished?]
    scopes: List[List] = [["file", file_scope, False]]
    stmt: List[lexers.Token] = []
    paren = 0  # depth of ( and [ inside the current statement

    def scope_path() -> str:
        return "/".join(entry[1] for entry in scopes if entry[0] != "block")

    def in_decl_scope() -> bool:
        return scopes[-1][0] in ("file", "namespace", "type", "enum")

    def top_level(ts: Sequence[lexers.Token]) -> List[lexers.Token]:
        """Tokens outside any ( ) [ ] { } < > group; the opening "(" of a group is kept."""
        out = []
        depth = 0
        angle = 0
        for t in ts:
            if t.text in ("(", "[", "{"):
                if depth == 0 and angle == 0 and t.text == "(":
                    out.append(t)
                depth += 1
                continue
            if t.text in (")", "]", "}"):
                depth = max(0, depth - 1)
                continue
            if depth > 0:
                continue
            if t.text == "<" and out and out[-1].kind == "ident":
                angle += 1
                continue
            if t.text == ">" and angle > 0:
                angle -= 1
                continue
            if angle == 0:
                out.append(t)
        return out

    def member_name(ts: Sequence[lexers.Token]) -> Optional[Tuple[str, str, int]]:
        """(kind, name, line) declared by the statement tokens ``ts``, if any."""
        top = top_level(ts)
        words = [t for t in top if t.kind == "ident"]
        if not words or words[0].text in NOT_NAMES:
            return None
        if words[0].text in ("import", "export") and any(t.kind == "string" for t in top):
            return None
        # the declaring part ends at "=" (initializer, "=>") and, name-first, at ":"
        cut = len(top)
        for k, t in enumerate(top):
            if t.text == "=" or (name_first and t.text in (":", "?", "!") and not any(
                x.text == "(" for x in top[:k]
            )):
                cut = k
                break
        head = top[:cut]
        for k, t in enumerate(head):
            if t.text == "(":
                if k == 0 or head[k - 1].kind != "ident":
                    return None
                name = head[k - 1]
                if name.text in NOT_NAMES or name.text in MODIFIERS:
                    return None
                kind = "method"
                if name_first and k >= 2 and head[k - 2].text in ("get", "set"):
                    kind = head[k - 2].text
                return kind, name.text, name.line
        names = [t for t in head if t.kind == "ident"]
        if name_first:
            names = [t for t in names if t.text not in modifiers]
            if not names:
                return None
            return "field", names[0].text, names[0].line
        if len(names) < 2:
            return None  # a lone identifier declares nothing in a name-last language
        name = names[-1]
        if name.text in NOT_NAMES or name.text in MODIFIERS:
            return None
        return "field", name.text, name.line

    def idents(ts: Sequence[lexers.Token]) -> List[str]:
        return [t.text for t in top_level(ts) if t.kind == "ident"]

    def kind_of(kind: str) -> str:
        """Fields outside any type (module-level constants, imports) are 'global's."""
        if kind == "field" and scopes[-1][0] in ("file", "namespace"):
            return "global"
        return kind

    for t in toks:
        text = t.text
        if text in ("(", "["):
            paren += 1
            stmt.append(t)
            continue
        if text in (")", "]"):
            paren = max(0, paren - 1)
            stmt.append(t)
            continue
        if text == "{":
            if paren > 0 or not in_decl_scope():
                scopes.append(["block", "", False])
                if paren > 0:
                    stmt.append(t)
                else:
                    stmt = []
                continue
            words = idents(stmt)
            has_init = any(x.text == "=" for x in top_level(stmt))
            opened = ["block", "", False]
            if not has_init and ("namespace" in words or (name_first and "module" in words)):
                name = ".".join(w for w in words if w not in modifiers and w not in ("namespace", "module"))
                opened = ["namespace", name or "?", False]
            elif not has_init and "enum" in words:
                rest = [w for w in words[words.index("enum") + 1:] if w not in ("class", "struct")]
                if rest:
                    result.append(Decl(scope_path(), "type", rest[0], t.line))
                    opened = ["enum", rest[0], False]
            elif not has_init and any(w in TYPE_KEYWORDS for w in words):
                k = min(words.index(w) for w in TYPE_KEYWORDS if w in words)
                if k + 1 < len(words):
                    result.append(Decl(scope_path(), "type", words[k + 1], t.line))
                    opened = ["type", words[k + 1], False]
            else:
                found = member_name(stmt)
                if found is not None:
                    result.append(Decl(scope_path(), kind_of(found[0]), found[1], found[2]))
            scopes.append(opened)
            stmt = []
            continue
        if text == "}":
            closed = scopes.pop() if len(scopes) > 1 else ["file", file_scope, False]
            if paren > 0:
                stmt.append(t)
                continue
            if closed[0] == "enum" and not closed[2] and stmt:
                words = idents(stmt)
                if words:
                    result.append(
                        Decl(scope_path() + "/" + closed[1], "literal", words[0], stmt[0].line)
                    )
            stmt = []
            continue
        if paren == 0 and (text == ";" or (text == "," and scopes[-1][0] == "enum" and not scopes[-1][2])):
            if in_decl_scope() and stmt:
                if scopes[-1][0] == "enum" and not scopes[-1][2]:
                    words = idents(stmt)
                    if words:
                        result.append(Decl(scope_path(), "literal", words[0], stmt[0].line))
                else:
                    found = member_name(stmt)
                    if found is not None:
                        result.append(Decl(scope_path(), kind_of(found[0]), found[1], found[2]))
            if text == ";" and scopes[-1][0] == "enum":
                scopes[-1][2] = True  # Java: members follow the constants
            stmt = []
            continue
        stmt.append(t)
    return result


def go_decls(tokens: Sequence[lexers.Token], file_scope: str) -> List[Decl]:
    """Heuristic scanner for Go: package-level declarations, struct fields, interface methods."""
    toks = _significant(tokens)
    result: List[Decl] = []
    n = len(toks)
    i = 0
    package = file_scope

    def skip_group(k: int) -> int:
        """``k`` is at an opening bracket; return the index after its closing one."""
        depth = 0
        while k < n:
            if toks[k].text in ("(", "[", "{"):
                depth += 1
            elif toks[k].text in (")", "]", "}"):
                depth -= 1
                if depth == 0:
                    return k + 1
            k += 1
        return k

    def members(k: int, scope: str) -> int:
        """Record the first identifier of every line directly inside ``{ ... }`` at ``k``."""
        assert toks[k].text == "{"
        depth = 0
        last_line = -1
        while k < n:
            t = toks[k]
            if t.text in ("(", "[", "{"):
                depth += 1
            elif t.text in (")", "]", "}"):
                depth -= 1
                if depth == 0:
                    return k + 1
            elif depth == 1 and t.kind == "ident" and t.line != last_line:
                prev = toks[k - 1]
                if prev.line != t.line or prev.text == "{":
                    result.append(Decl(scope, "member", t.text, t.line))
                last_line = t.line
            if depth >= 1 and t.kind != "ident":
                pass
            k += 1
        return k

    while i < n:
        t = toks[i]
        if t.depth != 0:
            i += 1
            continue
        if t.text == "package" and i + 1 < n:
            package = f"{file_scope.rsplit('/', 1)[0]}:{toks[i + 1].text}"
            i += 2
            continue
        if t.text == "func" and i + 1 < n:
            k = i + 1
            scope = package
            if toks[k].text == "(":  # receiver
                end = skip_group(k)
                receiver = []
                square = 0
                for x in toks[k:end]:
                    if x.text == "[":
                        square += 1
                    elif x.text == "]":
                        square -= 1
                    elif x.kind == "ident" and square == 0:
                        receiver.append(x.text)  # type parameters are skipped
                if receiver:
                    scope = f"{package}/{receiver[-1]}"
                k = end
            if k < n and toks[k].kind == "ident":
                result.append(Decl(scope, "func", toks[k].text, toks[k].line))
            # skip to the body and over it
            while k < n and not (toks[k].text == "{" and toks[k].depth == 0):
                if toks[k].text in ("(", "["):
                    k = skip_group(k)
                    continue
                if toks[k].depth == 0 and toks[k].text in ("func", "type", "var", "const") and toks[k].line != t.line:
                    break
                k += 1
            if k < n and toks[k].text == "{":
                k = skip_group(k)
            i = k
            continue
        if t.text == "type" and i + 1 < n:
            if toks[i + 1].text == "(":
                i += 1
                continue
            name = toks[i + 1]
            result.append(Decl(package, "type", name.text, name.line))
            k = i + 2
            if k < n and toks[k].text in ("struct", "interface") and k + 1 < n and toks[k + 1].text == "{":
                k = members(k + 1, f"{package}/{name.text}")
            i = k
            continue
        if t.text in ("const", "var") and i + 1 < n:
            if toks[i + 1].text == "(":
                end = skip_group(i + 1)
                last_line = -1
                for k in range(i + 2, end - 1):
                    x = toks[k]
                    if x.depth == 1 and x.kind == "ident" and x.line != last_line and toks[k - 1].line != x.line:
                        result.append(Decl(package, t.text, x.text, x.line))
                    if x.depth == 1:
                        last_line = x.line
                i = end
                continue
            result.append(Decl(package, t.text, toks[i + 1].text, toks[i + 1].line))
            i += 2
            continue
        i += 1
    return result


LEXERS = {
    ".cs": ("csharp", lexers.lex_csharp),
    ".ts": ("typescript", lexers.lex_typescript),
    ".java": ("java", lexers.lex_java),
    ".cpp": ("cpp", lexers.lex_cpp),
    ".hpp": ("cpp", lexers.lex_cpp),
}


def decls_of(path: pathlib.Path, rel: str) -> Optional[List[Decl]]:
    """Declarations of the generated file ``path`` (None: no extractor for this kind)."""
    suffix = path.suffix.lower()
    if suffix == ".py":
        return [d._replace(scope=f"{rel}:{d.scope}") for d in python_decls(path)]
    if suffix == ".json":
        return [d._replace(scope=f"{rel}:{d.scope}") for d in json_decls(path)]
    if suffix in (".xsd",):
        return [d._replace(scope=f"{rel}:{d.scope}") for d in xsd_decls(path)]
    text = path.read_bytes().decode("utf-8", "replace")
    if suffix == ".go":
        return go_decls(lexers.lex_go(text).tokens, rel)
    if suffix in LEXERS:
        lang, lexer = LEXERS[suffix]
        # one namespace spans several files: scope by directory for C# and Java
        scope = rel.rsplit("/", 1)[0] if lang in ("csharp", "java") and "/" in rel else rel
        return brace_decls(lexer(text).tokens, lang, scope)
    return None


def duplicates(decls: Sequence[Decl]) -> Dict[Tuple[str, str], int]:
    """(scope, name) -> count, for names declared in a scope (any kinds)."""
    counter: Dict[Tuple[str, str], int] = collections.Counter()
    for d in decls:
        counter[(d.scope, d.name)] += 1
    return counter
