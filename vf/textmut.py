"""
Seeded text mutators over meta-model source texts (used by C01, C02, C03, C06, C28).

Three layers:

* **text mutators** — work on any text (token / line splice, delete, duplicate, swap,
  character insertion incl. non-ASCII, NUL, BOM, tabs, CRLF, cross-over with a donor);
* **AST-aware mutators** — parse the text with :mod:`ast`, edit the tree and
  ``ast.unparse`` it (or do a targeted regex edit); they return ``None`` when not
  applicable (unparsable text, no class, ...);
* **targeted families** — small hand-written models around the constructs the
  properties name (``constant_*`` calls with 0-5 arguments of every AST kind, hostile
  pattern strings, contradictory invariants, ...).

API::

    mutate(text, rng, n_mutations=1, donors=None) -> (new_text, [mutator names])
    targeted_cases(rng, n_random=200) -> iterator of (name, text)

Everything is driven by the ``random.Random`` given by the caller; no global state.
"""
import ast
import copy
import random
import re
from typing import Callable, Iterator, List, Optional, Sequence, Tuple

MAX_TEXT = 50_000  # never produce texts beyond this size

FOOTER = '\n\n__version__ = "dummy"\n__xml_namespace__ = "https://dummy.com"\n'

HOSTILE_PATTERNS = [
    "^a$|", "^(a|b)$|", "|^a$", "^a$||^b$", "^a$|b", "a|^b$", "^a|b$", "^$|", "||", "^(|)$|",
    "^*", "{", "}", "{3,1}", "a{3,1}", "[a-b-c]", "[^\U0001F600]", "a{\u00b2}", "[]",
    "[^]", "(", ")", "\\", "^a|b$", "^a$|^b$", "a", "^a", "a$", "", "^$", "^^a$$",
    "^(a$", "^a)$", "^[a$", "^a]$", "^a{$", "^a{1$", "^a{1,$", "^a{,1}$", "^a{1,2,3}$",
    "^a{-1}$", "^a{ 1 }$", "^a**$", "^a+*$", "^a??$", "^a?*$", "^+$", "^?$", "^|$",
    "^(|)$", "^()$", "^(?:a)$", "^(?P<n>a)$", "^(?=a)$", "^(?!a)$", "^(?i)a$",
    "^\\d$", "^\\w$", "^\\s$", "^\\b$", "^\\1$", "^\\x4$", "^\\x41$", "^\\xZZ$",
    "^\\u00$", "^\\u0041$", "^\\U0001F600$", "^\\U00110000$", "^\\N{DASH}$", "^\\$",
    "^[z-a]$", "^[a-]$", "^[-a]$", "^[a--]$", "^[\\^-a]$", "^[\\]]$", "^[[]$",
    "^[[:alpha:]]$", "^[a-\\d]$", "^[\\d-a]$", "^[^^]$", "^[\\x00-\\xff]$",
    "^[\U00010000-\U0010FFFF]$", "^[\\U00010000-\\U0010FFFF]$", "^[\ud800-\udfff]$",
    "^\ud800$", "^.$", "^.*$", "^a{0}$", "^a{0,0}$", "^a{99999999999999999999}$",
    "^a{1,99999999999999999999}$", "^(a*)*$", "^(a|a)*$", "^" + "(" * 40 + "a" + ")" * 40 + "$",
    "^" + "a?" * 30 + "a" * 30 + "$", "^a\x00b$", "^a\nb$", "^a\tb$", "^\u00e9$",
    "^\u4e2d$", "^{}$", "^{{}}$", "^{x}$", "^%s$", "^\\{$", "^a{1}{2}$", "^(a{1,2}){3,4}$",
    "^[a-zA-Z0-9_.+-]+@[a-zA-Z0-9-]+\\.[a-zA-Z0-9-.]+$", "^#$", "^a$\n", "\n^a$",
    "^ $", "^\\ $", "^[ ]$", "^a{1, 2}$", "^a{\u0661}$", "^[\\u0041-\\u005A]$",
    "^[\\x41-\\u005A]$", "^\\x{41}$", "^\\p{L}$", "^\\P{L}$", "^\\Z$", "^\\A$",
    "^a\\", "^[a\\", "^[\\", "^(\\", "^[a-\\", "^a{1,\\", "^(?#c)a$", "^*a$", "^{1}$",
    "^(*)$", "^(+)$", "^[*]$", "^a|*$", "^a{2}*$", "^a{2}+$", "^a{2}?$", "^a{2}{3}$",
]

CHAR_POOL = (
    list("()[]{}:,.=+-*/%<>!@#\"'\\ \t\n;~^&|`$?")
    + ["\r", "\r\n", "\x00", "\ufeff", "\x0c", "\x0b", "\x1b", "\u00a0", "\u2028",
       "\u00e9", "\u00df", "\u4e2d", "\U0001F600", "\u0301", "\u200b", "\u00b2",
       "\u0661", "\ud800", "\x7f", "\x85", "'''", '"""', "\\\n", "#", "# -*- coding: latin-1 -*-\n",
       "0", "9", "_", "a", "Z", "lambda", " if ", " else ", "None", "self", "1e999",
       "0x", "0b2", "1_0", "1__0", "...", "->", ":=", "**", "//", "f\"{", "b'", "rb'", "u'"]
)

TOKEN_POOL = [
    "class", "def", "return", "pass", "lambda", "self", "None", "True", "False", "not",
    "and", "or", "in", "is", "if", "else", "for", "all", "any", "len", "range", "match",
    "Optional", "List", "Set", "str", "int", "float", "bool", "bytearray", "bytes",
    "Enum", "DBC", "invariant", "require", "ensure", "abstract", "verification",
    "implementation_specific", "serialization", "non_mutating", "constant_set",
    "constant_str", "constant_int", "constant_float", "constant_bool",
    "constant_bytearray", "reference_in_the_book", "is_superset_of", "with_model_type",
    "(", ")", "[", "]", "{", "}", ":", ",", ".", "=", "==", "!=", "<", "<=", ">", ">=",
    "+", "-", "*", "**", "/", "//", "%", "@", "->", "0", "1", "-1", "1.5", "1e400",
    '""', "''", "b''", "f''", '"x"', "...", "__init__", "__version__",
    "__xml_namespace__", "__book_url__", "__book_version__", "super", "import", "from",
    "as", "global", "yield", "await", "async", "try", "except", "raise", "while", "del",
    "with", "assert", "print", "Final", "Tuple", "Dict", "Union", "Any", "Something",
]


# ---------------------------------------------------------------------------
# Plain text mutators: f(text, rng, donor) -> new text (or None when not applicable)
# ---------------------------------------------------------------------------

def _lines(text: str) -> List[str]:
    return text.splitlines(keepends=True)


def line_delete(text, rng, donor):
    lines = _lines(text)
    if not lines:
        return None
    i = rng.randrange(len(lines))
    k = rng.choice([1, 1, 1, 2, 3])
    del lines[i:i + k]
    return "".join(lines)


def line_duplicate(text, rng, donor):
    lines = _lines(text)
    if not lines:
        return None
    i = rng.randrange(len(lines))
    k = rng.choice([1, 1, 2, 4])
    j = rng.choice([i, i + k, rng.randrange(len(lines) + 1)])
    lines[j:j] = lines[i:i + k]
    return "".join(lines)


def line_swap(text, rng, donor):
    lines = _lines(text)
    if len(lines) < 2:
        return None
    i, j = rng.randrange(len(lines)), rng.randrange(len(lines))
    lines[i], lines[j] = lines[j], lines[i]
    return "".join(lines)


def line_splice(text, rng, donor):
    if not donor:
        return None
    dl = _lines(donor)
    if not dl:
        return None
    lines = _lines(text)
    i = rng.randrange(len(dl))
    k = rng.choice([1, 1, 2, 3, 6])
    j = rng.randrange(len(lines) + 1)
    lines[j:j] = dl[i:i + k]
    return "".join(lines)


def crossover(text, rng, donor):
    """Head of ``text`` + tail of ``donor`` (cut at line boundaries), or the reverse."""
    if not donor:
        return None
    a, b = _lines(text), _lines(donor)
    if rng.random() < 0.5:
        a, b = b, a
    i = rng.randrange(len(a) + 1)
    j = rng.randrange(len(b) + 1)
    return "".join(a[:i] + b[j:])


def block_move(text, rng, donor):
    """Move a top-level block (separated by blank lines) elsewhere."""
    blocks = re.split(r"(\n\s*\n)", text)
    if len(blocks) < 5:
        return None
    idx = [i for i in range(0, len(blocks), 2)]
    i, j = rng.choice(idx), rng.choice(idx)
    blocks[i], blocks[j] = blocks[j], blocks[i]
    return "".join(blocks)


def _token_spans(text: str) -> List[Tuple[int, int]]:
    """Approximate lexical tokens by regex (works on unparsable text as well)."""
    return [
        m.span()
        for m in re.finditer(
            r'"""|\'\'\'|[A-Za-z_][A-Za-z_0-9]*|\d+(?:\.\d+)?|"[^"\n]*"|\'[^\'\n]*\'|'
            r"->|==|!=|<=|>=|\*\*|//|[^\sA-Za-z_0-9]",
            text,
        )
    ]


def token_delete(text, rng, donor):
    spans = _token_spans(text)
    if not spans:
        return None
    s, e = rng.choice(spans)
    return text[:s] + text[e:]


def token_duplicate(text, rng, donor):
    spans = _token_spans(text)
    if not spans:
        return None
    s, e = rng.choice(spans)
    sep = rng.choice(["", " ", ", "])
    return text[:e] + sep + text[s:e] + text[e:]


def token_swap(text, rng, donor):
    spans = _token_spans(text)
    if len(spans) < 2:
        return None
    i = rng.randrange(len(spans))
    j = rng.choice([min(i + 1, len(spans) - 1), rng.randrange(len(spans))])
    if i == j:
        return None
    if i > j:
        i, j = j, i
    (s1, e1), (s2, e2) = spans[i], spans[j]
    if e1 > s2:
        return None
    return text[:s1] + text[s2:e2] + text[e1:s2] + text[s1:e1] + text[e2:]


def token_replace(text, rng, donor):
    spans = _token_spans(text)
    if not spans:
        return None
    s, e = rng.choice(spans)
    if donor and rng.random() < 0.3:
        ds = _token_spans(donor)
        if ds:
            a, b = rng.choice(ds)
            return text[:s] + donor[a:b] + text[e:]
    return text[:s] + rng.choice(TOKEN_POOL) + text[e:]


def token_insert(text, rng, donor):
    spans = _token_spans(text)
    pos = rng.choice(spans)[0] if spans else 0
    return text[:pos] + rng.choice(TOKEN_POOL) + " " + text[pos:]


def char_insert(text, rng, donor):
    pos = rng.randrange(len(text) + 1)
    ch = rng.choice(CHAR_POOL)
    if rng.random() < 0.1:
        ch = ch * rng.choice([2, 3, 50])
    return text[:pos] + ch + text[pos:]


def char_delete(text, rng, donor):
    if not text:
        return None
    pos = rng.randrange(len(text))
    return text[:pos] + text[pos + 1:]


def char_replace(text, rng, donor):
    if not text:
        return None
    pos = rng.randrange(len(text))
    return text[:pos] + rng.choice(CHAR_POOL) + text[pos + 1:]


def to_crlf(text, rng, donor):
    if "\n" not in text:
        return None
    mode = rng.random()
    if mode < 0.5:
        return text.replace("\r\n", "\n").replace("\n", "\r\n")
    if mode < 0.75:
        return text.replace("\n", "\r")
    # only some of the lines
    return "".join(
        (ln[:-1] + "\r\n") if ln.endswith("\n") and rng.random() < 0.5 else ln
        for ln in _lines(text)
    )


def add_bom(text, rng, donor):
    return "\ufeff" + text


def tabs_for_indent(text, rng, donor):
    if "    " not in text:
        return None
    if rng.random() < 0.5:
        return re.sub(r"(?m)^(?:    )+", lambda m: "\t" * (len(m.group(0)) // 4), text)
    lines = _lines(text)
    cand = [i for i, ln in enumerate(lines) if ln.startswith("    ")]
    i = rng.choice(cand)
    lines[i] = "\t" + lines[i][4:]
    return "".join(lines)


def indent_shift(text, rng, donor):
    lines = _lines(text)
    if not lines:
        return None
    i = rng.randrange(len(lines))
    if rng.random() < 0.5:
        lines[i] = "    " + lines[i]
    else:
        lines[i] = lines[i][4:] if lines[i].startswith("    ") else " " + lines[i]
    return "".join(lines)


def truncate(text, rng, donor):
    if not text:
        return None
    return text[: rng.randrange(len(text))]


def prepend_junk(text, rng, donor):
    junk = rng.choice(
        [
            "\n\n\n", "# comment\n", '"""Module docstring."""\n', "\x0c\n", "  \n",
            "#!/usr/bin/env python\n# -*- coding: utf-8 -*-\n", '"""\nmulti\nline\n"""\n',
            "# \u4e2d\u6587 \U0001F600\n", "from typing import List\n", "import os\n",
            "from os import path as p\n", "from enum import Enum\n", "x = 1\n", "pass\n",
            "\\\n", ";\n", "\t\n", "from __future__ import annotations\n",
            "from typing import *\n", "from . import x\n", "from .. import y\n",
        ]
    )
    return junk + text


def append_junk(text, rng, donor):
    junk = rng.choice(
        [
            "\n", "x = 1\n", "x: int\n", "x: int = 1\n", "def f(): pass\n",
            "def f() -> None:\n    pass\n", "class A: pass\n", "class A(A): pass\n",
            "lambda: 0\n", "if True:\n    pass\n", "for i in []: pass\n", "1\n", '"""doc"""\n',
            "del x\n", "assert False\n", "raise Exception()\n", "import sys\n",
            "__version__ = 1\n", "__xml_namespace__ = None\n", "__version__ = 'a' 'b'\n",
            "__book_url__ = 'x'\n", "__book_version__ = 'y'\n", "__version__: str = 'x'\n",
            "__version__ = __xml_namespace__ = 'x'\n", "a, b = 1, 2\n", "a = b = 3\n",
            "a += 1\n", "@abstract\nclass B:\n    pass\n", "async def g(): pass\n",
            "try:\n    pass\nexcept Exception:\n    pass\n", "with x: pass\n",
            "class \u00c9: pass\n", "class C(Enum): pass\n", "class D(Enum):\n    a = 1\n",
            "global z\n", "while False: pass\n", "type X = int\n", "match x:\n    case 1: pass\n",
            "\x00", "\x1a", "\\", "'''", "(", "    pass\n",
        ]
    )
    return text + ("" if text.endswith("\n") or not text else "\n") + junk


def drop_footer(text, rng, donor):
    new = re.sub(
        r"(?m)^__(version|xml_namespace)__\s*=.*\n?",
        lambda m: "" if rng.random() < 0.7 else m.group(0),
        text,
    )
    return new if new != text else None


def string_content(text, rng, donor):
    """Replace the content of one string literal by something hostile."""
    spans = [m.span(1) for m in re.finditer(r'"([^"\n\\]*)"', text)]
    if not spans:
        return None
    s, e = rng.choice(spans)
    new = rng.choice(
        [
            "", " ", "\\n", "\\", "\\\\", "\\x00", "\\ud800", "\\U0001F600", "{", "}", "{}",
            "*", "**bold", "`", "``", ":class:`X`", ":attr:`~X.y`", ":ref:`", "|x|", "_x_",
            "x_", ".. note::", "\\N{DASH}", "%s", "\u00e9", "\U0001F600", "\\t", "'", "a" * 300,
            ":constraint AASd-1:", ":param x:", ":return:", "* bullet", "1. item", "----",
            "====\\nx\\n====", "\\r\\n", "::", "x\\n  y", ":class:`.X`", ":py:class:`X`",
            ":paramref:`x`", ":constref:`X`", "<a>", "&amp;", "]]>", "*/", "//", "#",
        ]
    )
    return text[:s] + new + text[e:]


def number_content(text, rng, donor):
    spans = [m.span() for m in re.finditer(r"(?<![A-Za-z_\.])\d+(?:\.\d+)?", text)]
    if not spans:
        return None
    s, e = rng.choice(spans)
    new = rng.choice(
        ["0", "-1", "1e400", "-0.0", "2**70", "9" * 30, "1.5", "0x10", "1_000", "1j",
         "True", "None", "'1'", "1 if True else 2", "0.1 + 0.2", "float('nan')", "-9223372036854775809",
         "9223372036854775808", "1e-400", "0o7", "0b1", "00", "1.", ".5", "1e5"]
    )
    return text[:s] + new + text[e:]


TEXT_MUTATORS: List[Tuple[str, Callable, float]] = [
    ("line_delete", line_delete, 3), ("line_duplicate", line_duplicate, 3),
    ("line_swap", line_swap, 2), ("line_splice", line_splice, 3),
    ("crossover", crossover, 2), ("block_move", block_move, 1),
    ("token_delete", token_delete, 4), ("token_duplicate", token_duplicate, 3),
    ("token_swap", token_swap, 3), ("token_replace", token_replace, 5),
    ("token_insert", token_insert, 3), ("char_insert", char_insert, 4),
    ("char_delete", char_delete, 2), ("char_replace", char_replace, 2),
    ("to_crlf", to_crlf, 1), ("add_bom", add_bom, 0.5),
    ("tabs_for_indent", tabs_for_indent, 1), ("indent_shift", indent_shift, 1.5),
    ("truncate", truncate, 1), ("prepend_junk", prepend_junk, 1.5),
    ("append_junk", append_junk, 3), ("drop_footer", drop_footer, 1),
    ("string_content", string_content, 3), ("number_content", number_content, 1.5),
]


# ---------------------------------------------------------------------------
# AST-aware mutators: f(text, rng, donor) -> new text or None
# ---------------------------------------------------------------------------

PRIMITIVES = ["bool", "int", "float", "str", "bytearray"]

DECORATOR_NAMES = [
    "abstract", "implementation_specific", "verification", "non_mutating",
    "serialization", "invariant", "require", "ensure", "reference_in_the_book",
    "is_superset_of", "staticmethod", "classmethod", "property", "dataclass", "unknown",
    "abstract_", "Abstract", "snapshot", "template",
]

ODD_DECORATORS = [
    "abstract()", "abstract(1)", "abstract.x", "a.b.c", "a[0]", "(lambda f: f)", "1", "None",
    '"abstract"', "implementation_specific()", "implementation_specific(x=1)",
    "serialization()", "serialization(1)", "serialization(with_model_type=1)",
    "serialization(with_model_type=True, with_model_type=False)" ,
    "serialization(with_model_type=None)", "serialization(unknown=True)",
    "serialization(with_model_type=True)", "serialization(**kw)", "serialization(*a)",
    "invariant()", "invariant(1)", "invariant(lambda: True)", 'invariant(lambda self: True)',
    'invariant(lambda self: True, 1)', 'invariant(lambda self: True, "x", "y")',
    'invariant(lambda self, other: True, "x")', 'invariant(lambda x: True, "x")',
    'invariant(lambda *self: True, "x")', 'invariant(lambda self=1: True, "x")',
    'invariant(lambda **self: True, "x")', 'invariant(lambda self, /: True, "x")',
    'invariant(lambda self: (yield), "x")', 'invariant(lambda self: self, "x")',
    'invariant(description="x", condition=lambda self: True)',
    'invariant(condition=lambda self: True, description="x", enabled=False)',
    'invariant(lambda self: True, description="x")', 'invariant(f, "x")',
    'invariant(lambda self: True, f"x")', 'invariant(lambda self: True, "x" "y")',
    'invariant(lambda self: True, b"x")', 'invariant(lambda self: True, "")',
    'invariant(lambda self: True, "*")', 'invariant(lambda self: True, "\\n")',
    'invariant(lambda self: lambda: self, "x")', 'invariant(lambda self: self.x.y.z, "x")',
    'invariant(lambda self: self.nonexistent > 0, "x")', 'invariant(lambda self: unknown(self), "x")',
    'invariant(lambda self: len(self) > 0, "x")', 'invariant(lambda self: self[0], "x")',
    'invariant(lambda self: all(x for x in self), "x")',
    'invariant(lambda self: all(x > 0 for x in self.xs for y in self.ys), "x")',
    'invariant(lambda self: all(x > 0 for x, y in self.xs), "x")',
    'invariant(lambda self: any(x > 0 for x in range(1, 2, 3)), "x")',
    'invariant(lambda self: any(x > 0 for x in range()), "x")',
    'invariant(lambda self: [x for x in self.xs], "x")',
    'invariant(lambda self: {x for x in self.xs}, "x")',
    'invariant(lambda self: {1: 2}, "x")', 'invariant(lambda self: (1, 2), "x")',
    'invariant(lambda self: 1 < 2 < 3, "x")', 'invariant(lambda self: 1 if 2 else 3, "x")',
    'invariant(lambda self: not (1), "x")', 'invariant(lambda self: -self.x > 0, "x")',
    'invariant(lambda self: ~self.x > 0, "x")', 'invariant(lambda self: self.x @ 1, "x")',
    'invariant(lambda self: self.x ** 2 > 0, "x")', 'invariant(lambda self: self.x is 1, "x")',
    'invariant(lambda self: self.x not in [1], "x")', 'invariant(lambda self: (x := 1) > 0, "x")',
    'invariant(lambda self: f"{self.x}" == "1", "x")', 'invariant(lambda self: ..., "x")',
    'invariant(lambda self: self.f(), "x")', 'invariant(lambda self: self.f(x=1), "x")',
    'invariant(lambda self: f(*self.x), "x")', 'invariant(lambda self: f(**self.x), "x")',
    'invariant(lambda self: len(), "x")', 'invariant(lambda self: len(1, 2) > 0, "x")',
    'invariant(lambda self: len(x=self) > 0, "x")', 'invariant(lambda self: match("a", self.x), "x")',
    'invariant(lambda self: match("a", self.x) is not None, "x")',
    'invariant(lambda self: self.x[1:2], "x")', 'invariant(lambda self: self.x[1, 2], "x")',
    'invariant(lambda self: await self.x, "x")', 'invariant(lambda self: "a" "b" == self.x, "x")',
    'invariant(lambda self: b"a" == self.x, "x")', 'invariant(lambda self: 1j == self.x, "x")',
    'invariant(lambda self: None, "x")', 'invariant(lambda self: self.x == None, "x")',
    'invariant(lambda self: super().x, "x")', 'invariant(lambda self: self.__class__, "x")',
    'invariant(lambda self: Some_enum.literal == self.x, "x")',
    'invariant(lambda self: Nonexistent.literal == self.x, "x")',
    'invariant(lambda self: self.x in Nonexistent_set, "x")',
    'invariant(lambda self: not (self.x is not None) or (self.x > 0), "x")',
    'invariant(lambda self: (self.x is not None) or self.x > 0, "x")',
    'invariant(lambda self: self.x is None and self.x > 0, "x")',
    'invariant(lambda self: len(self.x) > 5, "x")\n@invariant(lambda self: len(self.x) < 3, "y")',
    'invariant(lambda self: len(self.x) == 5, "x")\n@invariant(lambda self: len(self.x) == 3, "y")',
    'invariant(lambda self: len(self.x) >= -1, "x")', 'invariant(lambda self: len(self.x) < 0, "x")',
    'invariant(lambda self: len(self.x) <= 2**70, "x")', 'invariant(lambda self: len(self.x) == 1.5, "x")',
    'invariant(lambda self: 5 < len(self.x), "x")\n@invariant(lambda self: 3 > len(self.x), "y")',
    'reference_in_the_book()', 'reference_in_the_book(section=(1, 2))',
    'reference_in_the_book(section=(1, 2), index=3)', 'reference_in_the_book(section=1)',
    'reference_in_the_book(section=("a",))', 'reference_in_the_book(section=(), index=-1)',
    'reference_in_the_book(section=(1,), index=1, fragment="x y")',
    'reference_in_the_book(section=(1,), fragment=1)', 'reference_in_the_book((1, 2), 3, "f")',
    'reference_in_the_book((1, 2), 3, "f", 4)', 'reference_in_the_book(unknown=1)',
    'is_superset_of()', 'is_superset_of(enums=[])', 'is_superset_of(enums=[Nonexistent])',
    'is_superset_of(enums=1)', 'is_superset_of([A], [B])', 'is_superset_of(enums=[a.b])',
    'is_superset_of(enums=["x"])', 'is_superset_of(x=[A])',
    'verification', 'verification()', 'non_mutating', 'non_mutating()',
    'require(lambda x: x > 0)', 'require(lambda self: True)', 'require(1)', 'require()',
    'require(lambda nonexistent: True)', 'require(lambda x: x > 0, "d")',
    'require(lambda x: x > 0, description=1)', 'require(lambda x: x > 0, error=ValueError)',
    'ensure(lambda result: result)', 'ensure(lambda result, OLD: OLD.x == result)',
    'ensure(lambda self, result: result > 0)', 'ensure(lambda: True)', 'ensure(1)',
    'snapshot(lambda self: self.x, name="x")', 'snapshot(lambda self: self.x)',
    'snapshot(lambda: 1, "x")', 'snapshot(1)', 'snapshot()',
    'snapshot(lambda self: self.x, name=1)', 'snapshot(lambda self: self.x, "a", "b")',
]

ANNOTATIONS = [
    "int", "str", "bool", "float", "bytearray", "bytes", "Optional[int]", "List[int]",
    "List[Optional[int]]", "Optional[List[int]]", "Optional[Optional[int]]",
    "List[List[int]]", "Optional[List[Optional[List[int]]]]", '"int"', '"Something"',
    '"Optional[int]"', 'Optional["int"]', 'List["Something"]', '""', '" "', '"a b"',
    '"1x"', '"a.b"', '"\u00e9"', "'List[int]'", "Nonexistent", "Optional[Nonexistent]",
    "Optional", "List", "Set[int]", "Set", "Dict[str, int]", "Tuple[int, int]",
    "Tuple[int, ...]", "Optional[int, str]", "List[int, str]", "Optional[()]", "List[1]",
    "List[None]", "Optional[None]", "None", "1", "...", "a.b", "a.b[int]", "a[b][c]",
    "List[int][0]", "int | None", "Optional[int | str]", "List[1:2]", "List[1:2, 3]",
    "Final[int]", "Final", "Union[int, str]", "Any", "object", "type", "self", "Self",
    "Enum", "DBC", "lambda: int", "[int]", "(int,)", "{int}", "f'int'", "b'int'",
    "Optional[b'x']", "List[1.5]", "List[True]", "int()", "-int", "not int", "int if 1 else str",
    "Something", "Optional[Something]", "List[Something]", "Some_enum", "List[Some_enum]",
    "Optional[List[Some_enum]]", "\u00c9", "Optional[\u00c9]", "__init__", "str_", "List_",
    "list", "list[int]", "set[str]", "dict", "typing.List[int]", "typing.Optional[int]",
]

DEFAULTS = [
    "None", "0", "1", "-1", "1.5", '""', '"x"', "True", "False", "[]", "[1]", "{}", "()",
    "set()", "b''", "bytearray()", "bytearray(b'x')", "Some_enum.literal", "Some_enum",
    "Nonexistent.literal", "a.b.c", "lambda: 1", "f()", "x", "self", "...", "1 + 1", "-x",
    "not True", "[None]", "{1}", "{1: 2}", "f''", "1j", "2**70", "1e400", '"a" "b"',
    "(1, 2)", "None if True else 1", "[x for x in y]", "*a", "Some_enum.literal.value",
]

NON_ASCII_IDENTS = [
    "\u00c9cole", "\u00fcber", "\u4e2d\u6587", "\u03b1", "na\u00efve", "\ufb01", "\u212a",
    "x\u0301", "\u0661" "x", "_\u00e9", "\u00b5", "\u1e9e", "\U0001d400", "a\u00b7b", "\u2118",
]

RESERVED_LIKE_IDENTS = [
    "self", "cls", "None_", "class_", "type", "id", "list", "str", "int", "match", "Enum",
    "DBC", "List", "Optional", "model_type", "modelType", "__init__", "__x__", "_", "__", "_x",
    "x_", "X", "x__y", "x_1", "x1", "A_b_C", "aBc", "descend", "accept", "transform",
    "over_x_or_empty", "is_x", "as_x", "path", "cause", "error", "result", "that", "value",
    "values", "items", "keys", "hash", "len", "all", "any", "range", "in", "a" * 300,
]


def _parse(text: str) -> Optional[ast.Module]:
    if len(text) > MAX_TEXT:
        return None
    try:
        return ast.parse(text)
    except (SyntaxError, ValueError, RecursionError, MemoryError):
        return None


def _unparse(tree: ast.AST) -> Optional[str]:
    try:
        ast.fix_missing_locations(tree)
        return ast.unparse(tree) + "\n"
    except Exception:  # unparse of odd trees (e.g. surrogates) may fail
        return None


def _expr(src: str) -> Optional[ast.expr]:
    try:
        return ast.parse(src, mode="eval").body
    except (SyntaxError, ValueError):
        return None


def _classes(tree: ast.Module) -> List[ast.ClassDef]:
    return [n for n in tree.body if isinstance(n, ast.ClassDef)]


def _functions(tree: ast.Module) -> List[ast.FunctionDef]:
    out = []
    for n in ast.walk(tree):
        if isinstance(n, ast.FunctionDef):
            out.append(n)
    return out


def _ast_mutator(func):
    """Wrap ``func(tree, rng, donor) -> bool`` into a text mutator."""

    def wrapper(text, rng, donor):
        tree = _parse(text)
        if tree is None:
            return None
        try:
            ok = func(tree, rng, donor)
        except (IndexError, ValueError, AttributeError, TypeError):
            return None
        if not ok:
            return None
        return _unparse(tree)

    wrapper.__name__ = func.__name__
    return wrapper


def _decorated(tree):
    return [
        n for n in ast.walk(tree)
        if isinstance(n, (ast.ClassDef, ast.FunctionDef)) and n.decorator_list
    ]


@_ast_mutator
def decorator_rename(tree, rng, donor):
    nodes = _decorated(tree)
    node = rng.choice(nodes)
    i = rng.randrange(len(node.decorator_list))
    deco = node.decorator_list[i]
    name = rng.choice(DECORATOR_NAMES)
    if isinstance(deco, ast.Call):
        deco.func = ast.Name(id=name, ctx=ast.Load())
    else:
        node.decorator_list[i] = ast.Name(id=name, ctx=ast.Load())
    return True


@_ast_mutator
def decorator_args(tree, rng, donor):
    """Drop / duplicate / swap / retype / keyword-ise the arguments of a decorator call."""
    calls = [d for n in _decorated(tree) for d in n.decorator_list if isinstance(d, ast.Call)]
    call = rng.choice(calls)
    op = rng.choice(["drop", "dup", "swap", "replace", "to_kw", "to_pos", "star", "clear"])
    if op == "drop" and (call.args or call.keywords):
        if call.args and (not call.keywords or rng.random() < 0.5):
            del call.args[rng.randrange(len(call.args))]
        else:
            del call.keywords[rng.randrange(len(call.keywords))]
    elif op == "dup":
        if call.keywords and rng.random() < 0.5:
            call.keywords.append(copy.deepcopy(rng.choice(call.keywords)))
        elif call.args:
            call.args.append(copy.deepcopy(rng.choice(call.args)))
        else:
            return False
    elif op == "swap" and len(call.args) >= 2:
        call.args.reverse()
    elif op == "replace" and (call.args or call.keywords):
        new = _expr(rng.choice(ARG_KINDS))
        if new is None:
            return False
        if call.args and (not call.keywords or rng.random() < 0.5):
            call.args[rng.randrange(len(call.args))] = new
        else:
            rng.choice(call.keywords).value = new
    elif op == "to_kw" and call.args:
        arg = call.args.pop()
        call.keywords.append(
            ast.keyword(arg=rng.choice(["condition", "description", "x", "values", "name"]), value=arg)
        )
    elif op == "to_pos" and call.keywords:
        call.args.append(call.keywords.pop().value)
    elif op == "star" and call.args:
        call.args[-1] = ast.Starred(value=call.args[-1], ctx=ast.Load())
    elif op == "clear":
        call.args, call.keywords = [], []
    else:
        return False
    return True


@_ast_mutator
def decorator_add_odd(tree, rng, donor):
    nodes = [n for n in ast.walk(tree) if isinstance(n, (ast.ClassDef, ast.FunctionDef))]
    node = rng.choice(nodes)
    src = rng.choice(ODD_DECORATORS)
    for part in src.split("\n@"):
        e = _expr(part)
        if e is None:
            return False
        node.decorator_list.insert(rng.randrange(len(node.decorator_list) + 1), e)
    return True


@_ast_mutator
def decorator_duplicate(tree, rng, donor):
    node = rng.choice(_decorated(tree))
    node.decorator_list.append(copy.deepcopy(rng.choice(node.decorator_list)))
    return True


@_ast_mutator
def decorator_move(tree, rng, donor):
    """Move a decorator to another class/function (e.g. class marker onto a method)."""
    src = rng.choice(_decorated(tree))
    targets = [n for n in ast.walk(tree) if isinstance(n, (ast.ClassDef, ast.FunctionDef))]
    dst = rng.choice(targets)
    dst.decorator_list.insert(0, copy.deepcopy(rng.choice(src.decorator_list)))
    return True


@_ast_mutator
def dup_property(tree, rng, donor):
    cands = [
        (c, i) for c in _classes(tree) for i, s in enumerate(c.body) if isinstance(s, ast.AnnAssign)
    ]
    c, i = rng.choice(cands)
    dup = copy.deepcopy(c.body[i])
    if rng.random() < 0.3:
        dup.annotation = _expr(rng.choice(ANNOTATIONS)) or dup.annotation
    c.body.insert(rng.choice([i + 1, len(c.body)]), dup)
    return True


@_ast_mutator
def dup_argument(tree, rng, donor):
    fns = [f for f in _functions(tree) if f.args.args]
    f = rng.choice(fns)
    arg = copy.deepcopy(rng.choice(f.args.args))
    f.args.args.append(arg)
    if f.args.defaults and rng.random() < 0.7:
        f.args.defaults.append(copy.deepcopy(f.args.defaults[-1]))
    return True


@_ast_mutator
def dup_enum_literal(tree, rng, donor):
    cands = [
        (c, i) for c in _classes(tree) for i, s in enumerate(c.body) if isinstance(s, ast.Assign)
    ]
    c, i = rng.choice(cands)
    dup = copy.deepcopy(c.body[i])
    mode = rng.random()
    if mode < 0.4 and isinstance(dup.targets[0], ast.Name):
        dup.targets[0].id += "_dup"  # same value, other name
    elif mode < 0.6:
        dup.value = _expr(rng.choice(DEFAULTS)) or dup.value  # same name, other value
    c.body.insert(i + 1, dup)
    return True


@_ast_mutator
def dup_class(tree, rng, donor):
    c = rng.choice(_classes(tree))
    dup = copy.deepcopy(c)
    if rng.random() < 0.3:
        dup.name = c.name.lower() if rng.random() < 0.5 else c.name.upper()
    tree.body.insert(rng.randrange(len(tree.body) + 1), dup)
    return True


@_ast_mutator
def dup_method(tree, rng, donor):
    cands = [
        (c, s) for c in _classes(tree) for s in c.body if isinstance(s, ast.FunctionDef)
    ]
    c, s = rng.choice(cands)
    c.body.append(copy.deepcopy(s))
    return True


@_ast_mutator
def rename_base(tree, rng, donor):
    classes = _classes(tree)
    c = rng.choice(classes)
    names = [k.name for k in classes] + PRIMITIVES + [
        "Enum", "DBC", "object", "Nonexistent", "Exception", "List", "Optional", c.name,
        "List[int]", "a.b", "f()", '"Something"', "1", "None", "bytes", "type", "Something",
    ]
    new = _expr(rng.choice(names))
    if new is None:
        return False
    op = rng.choice(["replace", "add", "add", "clear", "dup", "kw"])
    if op == "replace" and c.bases:
        c.bases[rng.randrange(len(c.bases))] = new
    elif op == "add":
        c.bases.insert(rng.randrange(len(c.bases) + 1), new)
    elif op == "clear":
        c.bases = []
    elif op == "dup" and c.bases:
        c.bases.append(copy.deepcopy(c.bases[0]))
    elif op == "kw":
        c.keywords.append(ast.keyword(arg=rng.choice(["metaclass", "x"]), value=new))
    else:
        return False
    return True


@_ast_mutator
def primitive_and_class_base(tree, rng, donor):
    """Make a class inherit both from a primitive and from a class (and/or get properties)."""
    classes = _classes(tree)
    c = rng.choice(classes)
    others = [k.name for k in classes if k is not c] or ["Something"]
    prim = ast.Name(id=rng.choice(PRIMITIVES), ctx=ast.Load())
    other = ast.Name(id=rng.choice(others), ctx=ast.Load())
    c.bases = rng.choice([[prim, other], [other, prim], [prim, copy.deepcopy(prim)],
                          [prim, ast.Name(id=rng.choice(PRIMITIVES), ctx=ast.Load())],
                          [prim] + c.bases, c.bases + [prim]])
    return True


@_ast_mutator
def class_to_enum(tree, rng, donor):
    c = rng.choice(_classes(tree))
    c.bases = rng.choice([["Enum"], ["Enum", "DBC"], ["str", "Enum"], ["Enum", "Enum"]])
    c.bases = [ast.Name(id=b, ctx=ast.Load()) for b in c.bases]
    return True


def _annotation_sites(tree):
    sites = []
    for n in ast.walk(tree):
        if isinstance(n, ast.AnnAssign):
            sites.append((n, "annotation"))
        elif isinstance(n, ast.arg) and n.annotation is not None:
            sites.append((n, "annotation"))
        elif isinstance(n, ast.FunctionDef) and n.returns is not None:
            sites.append((n, "returns"))
    return sites


@_ast_mutator
def annotation_to_string(tree, rng, donor):
    node, attr = rng.choice(_annotation_sites(tree))
    ann = getattr(node, attr)
    if rng.random() < 0.5 or not isinstance(ann, ast.Subscript):
        new = ast.Constant(value=ast.unparse(ann))
    else:  # only the inner part as a string
        new = copy.deepcopy(ann)
        new.slice = ast.Constant(value=ast.unparse(ann.slice))
    setattr(node, attr, new)
    return True


@_ast_mutator
def annotation_wrap(tree, rng, donor):
    """Nested Optional, List[Optional[..]], Optional[List[Optional[..]]], ..."""
    node, attr = rng.choice(_annotation_sites(tree))
    ann = getattr(node, attr)
    wraps = rng.choice(
        [["Optional"], ["Optional", "Optional"], ["List"], ["List", "Optional"],
         ["Optional", "List", "Optional"], ["List", "List"], ["Set"], ["Optional"] * 5,
         ["List"] * 4, ["Final"], ["Optional", "Final"], ["Tuple"], ["Dict"]]
    )
    for w in reversed(wraps):
        ann = ast.Subscript(value=ast.Name(id=w, ctx=ast.Load()), slice=ann, ctx=ast.Load())
    setattr(node, attr, ann)
    return True


@_ast_mutator
def annotation_unwrap(tree, rng, donor):
    sites = [(n, a) for n, a in _annotation_sites(tree) if isinstance(getattr(n, a), ast.Subscript)]
    node, attr = rng.choice(sites)
    setattr(node, attr, getattr(node, attr).slice)
    return True


@_ast_mutator
def annotation_replace(tree, rng, donor):
    node, attr = rng.choice(_annotation_sites(tree))
    new = _expr(rng.choice(ANNOTATIONS))
    if new is None:
        return False
    setattr(node, attr, new)
    return True


@_ast_mutator
def annotation_drop(tree, rng, donor):
    sites = [(n, a) for n, a in _annotation_sites(tree) if not isinstance(n, ast.AnnAssign)]
    node, attr = rng.choice(sites)
    setattr(node, attr, None)
    return True


@_ast_mutator
def drop_returns(tree, rng, donor):
    fns = [f for f in _functions(tree) if f.returns is not None]
    if rng.random() < 0.5:
        fns = [f for f in fns if f.name == "__init__"] or fns
    rng.choice(fns).returns = None
    return True


def _ctors(tree):
    return [f for f in _functions(tree) if f.name == "__init__" and len(f.args.args) >= 2]


@_ast_mutator
def ctor_args_reorder(tree, rng, donor):
    f = rng.choice(_ctors(tree))
    args = f.args.args
    if rng.random() < 0.2:
        rng.shuffle(args)  # may move self
    else:
        rest = args[1:]
        rng.shuffle(rest)
        args[1:] = rest
    return True


@_ast_mutator
def ctor_arg_rename(tree, rng, donor):
    f = rng.choice(_ctors(tree))
    arg = rng.choice(f.args.args)
    arg.arg = rng.choice(RESERVED_LIKE_IDENTS + NON_ASCII_IDENTS + [f.args.args[-1].arg])
    return True


@_ast_mutator
def ctor_arg_retype(tree, rng, donor):
    f = rng.choice(_ctors(tree))
    arg = rng.choice(f.args.args[1:])
    new = _expr(rng.choice(ANNOTATIONS))
    if new is None:
        return False
    arg.annotation = new
    return True


@_ast_mutator
def ctor_arg_kind(tree, rng, donor):
    """Turn arguments into *args / **kwargs / keyword-only / positional-only."""
    fns = [f for f in _functions(tree) if f.args.args]
    f = rng.choice(fns)
    a = f.args
    op = rng.choice(["vararg", "kwarg", "kwonly", "posonly", "noself", "drop"])
    if op == "vararg":
        a.vararg = a.args.pop()
    elif op == "kwarg":
        a.kwarg = a.args.pop()
    elif op == "kwonly":
        a.kwonlyargs.append(a.args.pop())
        a.kw_defaults.append(None)
    elif op == "posonly":
        a.posonlyargs.append(a.args.pop(0))
    elif op == "noself":
        a.args.pop(0)
    else:
        a.args.pop()
    while len(a.defaults) > len(a.args) + len(a.posonlyargs):
        a.defaults.pop(0)
    return True


@_ast_mutator
def change_default(tree, rng, donor):
    fns = [f for f in _functions(tree) if len(f.args.args) >= 2]
    f = rng.choice(fns)
    new = _expr(rng.choice(DEFAULTS))
    if new is None:
        return False
    a = f.args
    op = rng.choice(["replace", "add", "drop"])
    if op == "replace" and a.defaults:
        a.defaults[rng.randrange(len(a.defaults))] = new
    elif op == "drop" and a.defaults:
        a.defaults.pop(0)
    elif len(a.defaults) < len(a.args):
        a.defaults.insert(0, new)
    else:
        return False
    return True


@_ast_mutator
def ctor_body_edit(tree, rng, donor):
    """Drop / duplicate / retarget assignments and super().__init__ calls of a constructor."""
    fns = [f for f in _functions(tree) if f.name == "__init__" and f.body]
    f = rng.choice(fns)
    op = rng.choice(["drop", "dup", "retarget", "value", "super", "pass", "doc", "extra"])
    if op == "drop":
        del f.body[rng.randrange(len(f.body))]
        if not f.body:
            f.body.append(ast.Pass())
    elif op == "dup":
        f.body.append(copy.deepcopy(rng.choice(f.body)))
    elif op == "retarget":
        assigns = [s for s in f.body if isinstance(s, ast.Assign)]
        s = rng.choice(assigns)
        s.targets = [_expr(rng.choice(["self.nonexistent", "x", "self.a.b", "self[0]", "other.x", "self.x, self.y"]))]
        for t in ast.walk(s.targets[0]):
            if hasattr(t, "ctx"):
                t.ctx = ast.Store()
    elif op == "value":
        assigns = [s for s in f.body if isinstance(s, ast.Assign)]
        s = rng.choice(assigns)
        s.value = _expr(rng.choice(DEFAULTS + ["nonexistent", "x if x is not None else []", "x if x is not None else 1", "x if y is not None else []", "x or []"]))
    elif op == "super":
        src = rng.choice(
            ["super().__init__()", "super().__init__(1)", "super().__init__(x=x)", "super().__init__(nonexistent=1)",
             "Something.__init__(self)", "Something.__init__(self, x=x)", "Nonexistent.__init__(self)",
             "Something.__init__(x)", "Something.__init__()", "Something.__init__(self, *a)", "Something.init(self)",
             "super(Something, self).__init__()", "DBC.__init__(self)", "int.__init__(self)"]
        )
        f.body.insert(0, ast.parse(src).body[0])
    elif op == "pass":
        f.body = [ast.Pass()]
    elif op == "doc":
        f.body.insert(0, ast.Expr(value=ast.Constant(value=rng.choice(["doc", ":param x: y", ":param nonexistent: y", ":return: x", "*"]))))
    else:
        src = rng.choice(["return 1", "return", "x = 1", "self.x += 1", "if x: pass", "for i in x: pass", "del self.x",
                          "assert x", "raise ValueError()", "print(x)", "self.x: int = 1", "yield", "global g", "lambda: 0", "..."])
        f.body.append(ast.parse(src).body[0])
    return True


@_ast_mutator
def method_body_edit(tree, rng, donor):
    fns = [f for f in _functions(tree) if f.name != "__init__"]
    f = rng.choice(fns)
    src = rng.choice(
        ["return None", "return", "pass", "return 1 + ''", "return self", "return match(1, 2)",
         "x = 1\nreturn x", "x: int = 1", "for i in range(3):\n    pass", "for i in range(3):\n    return False\nreturn True",
         "for i, j in x:\n    pass", "for i in x:\n    pass\nelse:\n    pass", "while True: pass", "if x:\n    return True\nelif y:\n    return False\nelse:\n    return True",
         "return match(pattern, text) is not None", "pattern = 1\nreturn match(pattern, text) is not None",
         "pattern = f'{x}'\nreturn match(pattern, text) is not None", "pattern = 'a' + 'b'\nreturn match(pattern, text) is not None",
         "return match('^a$', text) is not None", "return match('^a$', text) is None", "return match('^a$', text)",
         "return match(r'^a$', text) is not None", "return match(f'^a$', text) is not None", "return match(b'^a$', text) is not None",
         "a = '^a$'\nb = f'{a}'\nreturn match(b, text) is not None", "a = '^a'\nb = f'{a}$'\nreturn match(b, text) is not None",
         "a = f'{a}'\nreturn match(a, text) is not None", "a = f'{b}'\nb = f'{a}'\nreturn match(a, text) is not None",
         "a = f'{text}'\nreturn match(a, text) is not None", "a = f'{1!r:>{2}}'\nreturn match(a, text) is not None",
         "return all(x for x in y)", "return any(x for x in y if x)", "raise NotImplementedError()", "yield 1", "return (yield)",
         "try:\n    pass\nfinally:\n    pass", "with x:\n    pass", "assert x\nreturn True", "del x", "import os", "nonlocal x",
         "def g(): pass\nreturn True", "class K: pass\nreturn True", "return lambda: 1", "return [1]", "return {}"],
    )
    body = ast.parse(src).body
    op = rng.choice(["replace", "append", "prepend"])
    if op == "replace":
        f.body = body
    elif op == "append":
        f.body.extend(body)
    else:
        f.body[0:0] = body
    return True


@_ast_mutator
def rename_identifier(tree, rng, donor):
    """Rename one definition (class, property, method, enum literal, constant) only at its definition or everywhere."""
    names = sorted(
        {n.name for n in ast.walk(tree) if isinstance(n, (ast.ClassDef, ast.FunctionDef))}
        | {n.target.id for n in ast.walk(tree) if isinstance(n, ast.AnnAssign) and isinstance(n.target, ast.Name)}
        | {n.arg for n in ast.walk(tree) if isinstance(n, ast.arg)}
    )
    old = rng.choice(names)
    new = rng.choice(NON_ASCII_IDENTS + RESERVED_LIKE_IDENTS + names)
    everywhere = rng.random() < 0.5
    done = False
    for n in ast.walk(tree):
        hit = False
        if isinstance(n, (ast.ClassDef, ast.FunctionDef)) and n.name == old:
            n.name, hit = new, True
        elif isinstance(n, ast.arg) and n.arg == old:
            n.arg, hit = new, True
        elif isinstance(n, ast.Name) and n.id == old:
            n.id, hit = new, True
        elif isinstance(n, ast.Attribute) and n.attr == old:
            n.attr, hit = new, True
        if hit:
            done = True
            if not everywhere:
                break
    return done


@_ast_mutator
def statement_edit(tree, rng, donor):
    """Delete / duplicate / move / import a statement from the donor at any nesting level."""
    bodies = [tree.body] + [n.body for n in ast.walk(tree) if isinstance(n, (ast.ClassDef, ast.FunctionDef))]
    body = rng.choice(bodies)
    op = rng.choice(["delete", "dup", "move", "donor", "donor"])
    if op == "delete" and body:
        del body[rng.randrange(len(body))]
        if not body and body is not tree.body:
            body.append(ast.Pass())
    elif op == "dup" and body:
        body.insert(rng.randrange(len(body) + 1), copy.deepcopy(rng.choice(body)))
    elif op == "move" and body:
        stmt = body.pop(rng.randrange(len(body)))
        if not body and body is not tree.body:
            body.append(ast.Pass())
        other = rng.choice(bodies)
        other.insert(rng.randrange(len(other) + 1), stmt)
    elif op == "donor":
        dt = _parse(donor) if donor else None
        if dt is None:
            return False
        dbodies = [dt.body] + [n.body for n in ast.walk(dt) if isinstance(n, (ast.ClassDef, ast.FunctionDef))]
        src = rng.choice(dbodies)
        if not src:
            return False
        body.insert(rng.randrange(len(body) + 1), copy.deepcopy(rng.choice(src)))
    else:
        return False
    return True


@_ast_mutator
def expr_replace(tree, rng, donor):
    """Replace one expression node inside a lambda / function body by another kind."""
    hosts = [n for n in ast.walk(tree) if isinstance(n, (ast.Lambda, ast.Return, ast.Compare, ast.BoolOp, ast.Call))]
    host = rng.choice(hosts)
    new = _expr(rng.choice(ARG_KINDS))
    if new is None:
        return False
    if isinstance(host, ast.Lambda):
        host.body = new
    elif isinstance(host, ast.Return):
        host.value = new
    elif isinstance(host, ast.Compare):
        if rng.random() < 0.5:
            host.left = new
        else:
            host.comparators[-1] = new
    elif isinstance(host, ast.BoolOp):
        host.values[rng.randrange(len(host.values))] = new
    else:
        if host.args:
            host.args[rng.randrange(len(host.args))] = new
        else:
            host.args.append(new)
    return True


@_ast_mutator
def op_replace(tree, rng, donor):
    sites = [n for n in ast.walk(tree) if isinstance(n, (ast.Compare, ast.BoolOp, ast.BinOp, ast.UnaryOp))]
    n = rng.choice(sites)
    if isinstance(n, ast.Compare):
        n.ops[rng.randrange(len(n.ops))] = rng.choice(
            [ast.Eq, ast.NotEq, ast.Lt, ast.LtE, ast.Gt, ast.GtE, ast.Is, ast.IsNot, ast.In, ast.NotIn]
        )()
        if rng.random() < 0.2:
            n.ops.append(ast.Lt())
            n.comparators.append(ast.Constant(value=3))
    elif isinstance(n, ast.BoolOp):
        n.op = ast.And() if isinstance(n.op, ast.Or) else ast.Or()
    elif isinstance(n, ast.BinOp):
        n.op = rng.choice([ast.Add, ast.Sub, ast.Mult, ast.Div, ast.FloorDiv, ast.Mod, ast.Pow, ast.MatMult, ast.BitOr, ast.LShift])()
    else:
        n.op = rng.choice([ast.Not, ast.USub, ast.UAdd, ast.Invert])()
    return True


# ---------------------------------------------------------------------------
# Injectors: add a whole construct named by the properties to a (parsable or not) text
# ---------------------------------------------------------------------------

# One source text per kind of ``ast`` expression node (plus interesting values).
ARG_KINDS = [
    # Constant
    "1", "0", "-1", "1.5", "1e400", "-0.0", "True", "False", "None", '"x"', '""', "b'x'", "b''",
    "...", "1j", '"a" "b"', "2**70", "9" * 25, '"\\x00"', '"\\ud800"', '"\U0001F600"', '"*"', '"`x"',
    '":class:`X`"', '"x\\n\\ny"', '".. unknown::"', '"a" * 3',
    # containers
    "[]", "[1]", '["a", "b"]', '["a", "a"]', "[1, 'a']", "[None]", "[[1]]", "[x]", "[*x]", "[1, 1.0, True]",
    "[b'x']", '[b"a", bytearray(b"a")]', "[1.5, 2.5]", "[True, False]", "[-1]", "[+1]", "[1 + 1]",
    "()", "(1,)", "(1, 2)", "{}", "{1}", "{1: 2}", "{**x}", "set()", "list()", "frozenset({1})",
    # names and attributes
    "x", "Something", "Some_enum", "Some_set", "Nonexistent", "Some_enum.literal", "Some_enum.nonexistent",
    "Nonexistent.literal", "a.b.c", "[Some_enum.literal]", "[Some_enum.literal, Some_enum.literal]",
    "[Some_enum.literal, 'x']", "[Some_enum.literal, Other_enum.literal]", "[Some_set]", "[Some_set, Some_set]",
    "[Nonexistent]", "[Some_enum]", "[a.b]", "['Some_set']", "[Some_constant]", "[\u00c9]",
    # every other expression kind
    "f()", "f(1)", "f(x=1)", "f(*a, **k)", "lambda: 1", "lambda x: x", "1 + 1", "-x", "not x", "x and y", "x or y",
    "x if y else z", "x < y", "x < y < z", "x is None", "x in y", "x[0]", "x[1:2]", "x[1:2, 3]", "x[::2]",
    "[i for i in x]", "{i for i in x}", "{i: i for i in x}", "(i for i in x)", "f'{x}'", "f''", "f'a'",
    "(x := 1)", "*x", "(yield)", "(yield from x)", "(await x)", "x @ y", "~x", "x ** y", "x // y", "x % y",
    "x << y", "x | y", "x & y", "x ^ y",
]

CONSTANT_FUNCS = [
    ("constant_set", "Set[str]"), ("constant_str", "str"), ("constant_int", "int"), ("constant_float", "float"),
    ("constant_bool", "bool"), ("constant_bytearray", "bytearray"),
]

CONSTANT_ANNOTATIONS = [
    "Set[str]", "Set[int]", "Set[float]", "Set[bool]", "Set[bytearray]", "Set[Some_enum]", "Set[Something]",
    "Set[Nonexistent]", "Set[List[str]]", "Set[Optional[str]]", "Set[Set[str]]", "Set[str, int]", "Set", "Set[()]",
    'Set["str"]', '"Set[str]"', "Set[1]", "Set[None]", "List[str]", "Optional[str]", "str", "int", "float", "bool",
    "bytearray", "bytes", "Something", "Some_enum", "Nonexistent", '"str"', '""', '"a b"', "1", "None", "a.b",
    "a.b[str]", "Final[str]", "Dict[str, int]", "Set[\u00c9]",
]

KEYWORD_NAMES = ["values", "value", "description", "superset_of", "unknown", "subsets", "name"]

PRELUDE = (
    "class Some_enum(Enum):\n"
    '    literal = "LITERAL"\n'
    '    other = "OTHER"\n'
    "\n\n"
    "class Other_enum(Enum):\n"
    '    literal = "LITERAL"\n'
    "\n\n"
    'Some_set: Set[str] = constant_set(values=["a", "b"])\n'
    'Some_constant: str = constant_str(value="a")\n'
    "\n\n"
    "class Something:\n"
    "    x: Optional[str]\n"
    "\n"
    "    def __init__(self, x: Optional[str] = None) -> None:\n"
    "        self.x = x\n"
)


def _pyrepr(s: str) -> str:
    """A Python string literal for ``s`` that survives as source text."""
    return repr(s)


def gen_constant(rng: random.Random, name: str = "Some_new_constant") -> str:
    """One constant definition: ``constant_*`` with 0-5 positional and keyword args."""
    func, ann = rng.choice(CONSTANT_FUNCS)
    if rng.random() < 0.35:
        ann = rng.choice(CONSTANT_ANNOTATIONS)
    if rng.random() < 0.1:
        func = rng.choice([f for f, _ in CONSTANT_FUNCS] + ["constant", "f", "Some_enum", "a.b", "(lambda: 1)", "constant_set()"])
    npos = rng.choice([0, 0, 1, 1, 2, 3, 3, 4, 5])
    nkw = rng.choice([0, 0, 1, 1, 2, 3, 4, 5])
    if npos + nkw > 6:
        nkw = 6 - npos

    def arg() -> str:
        r = rng.random()
        if r < 0.35:
            return rng.choice(
                ['["a", "b"]', '"x"', "1", "1.5", "True", "b'x'", "[Some_set]", "[Some_enum.literal]", '"Some description."']
            )
        return rng.choice(ARG_KINDS)

    parts = [arg() for _ in range(npos)]
    for _ in range(nkw):
        kw = rng.choice(KEYWORD_NAMES)
        if rng.random() < 0.05:
            parts.append("**" + rng.choice(["x", "{}", "{'values': []}"]))
        else:
            parts.append(f"{kw}={arg().lstrip('*')}")
    target = name if rng.random() < 0.9 else rng.choice(["a.b", "a[0]", "(a)", "a, b", NON_ASCII_IDENTS[0], "__x__", "Some_set", "Something"])
    shape = rng.random()
    if shape < 0.9:
        return f"{target}: {ann} = {func}({', '.join(parts)})\n"
    if shape < 0.93:
        return f"{target}: {ann}\n"
    if shape < 0.96:
        return f"{target} = {func}({', '.join(parts)})\n"
    return f"{target}: {ann} = {rng.choice(ARG_KINDS).lstrip('*')}\n"


def constant_case(func: str, ann: str, pos: Sequence[str], kws: Sequence[Tuple[str, str]]) -> str:
    parts = list(pos) + [f"{k}={v}" for k, v in kws]
    return PRELUDE + f"\n\nSome_new_constant: {ann} = {func}({', '.join(parts)})\n" + FOOTER


PATTERN_SHAPES = [
    # direct
    "@verification\ndef {name}(text: str) -> bool:\n    pattern = {lit}\n    return match(pattern, text) is not None\n",
    "@verification\ndef {name}(text: str) -> bool:\n    return match({lit}, text) is not None\n",
    # f-string composition
    "@verification\ndef {name}(text: str) -> bool:\n    part = {lit}\n    pattern = f\"^{{part}}$\"\n    return match(pattern, text) is not None\n",
    "@verification\ndef {name}(text: str) -> bool:\n    part = {lit}\n    pattern = f\"{{part}}\"\n    return match(pattern, text) is not None\n",
    "@verification\ndef {name}(text: str) -> bool:\n    a = {lit}\n    b = f\"({{a}})*\"\n    pattern = f\"^{{b}}{{a}}$\"\n    return match(pattern, text) is not None\n",
]


def gen_pattern_function(rng: random.Random, pattern: Optional[str] = None, name: str = "matches_something") -> str:
    if pattern is None:
        pattern = rng.choice(HOSTILE_PATTERNS)
        if rng.random() < 0.3:  # splice two hostile fragments
            other = rng.choice(HOSTILE_PATTERNS)
            k = rng.randrange(len(pattern) + 1)
            pattern = pattern[:k] + other + pattern[k:]
    lit = _pyrepr(pattern)
    r = rng.random()
    if r < 0.1 and "\\" not in pattern and "'" not in pattern and '"' not in pattern and "\n" not in pattern:
        lit = 'r"' + pattern + '"'
    elif r < 0.15:
        lit = "f" + lit.replace("{", "{{").replace("}", "}}")
    shape = rng.choice(PATTERN_SHAPES[:2] * 3 + PATTERN_SHAPES[2:])
    return shape.format(name=name, lit=lit)


def pattern_case(pattern: str, shape: int = 0, use_in_invariant: bool = True) -> str:
    lit = _pyrepr(pattern)
    fn = PATTERN_SHAPES[shape].format(name="matches_something", lit=lit)
    cls = (
        '@invariant(lambda self: matches_something(self.x), "x matches")\n' if use_in_invariant else ""
    ) + "class Something:\n    x: str\n\n    def __init__(self, x: str) -> None:\n        self.x = x\n"
    return fn + "\n\n" + cls + FOOTER


CONTRADICTIONS = [
    ("len(self.x) > 5", "len(self.x) < 3"), ("len(self.x) == 5", "len(self.x) == 3"),
    ("len(self.x) >= 5", "len(self.x) <= 4"), ("5 < len(self.x)", "3 > len(self.x)"),
    ("len(self.x) < 0", None), ("len(self.x) <= -1", None), ("len(self.x) == -1", None),
    ("len(self.x) > 2**70", None), ("len(self.x) >= 0", "len(self.x) <= 0"),
    ("len(self.x) > 0", "len(self.x) < 1"), ("len(self.x) == 0", "len(self.x) >= 1"),
    ("len(self.x) == 1.5", None), ("len(self.x) > len(self.x)", None),
    ("self.x is None", "self.x is not None"), ("False", None), ("not True", None),
    ("self.x == 'a'", "self.x == 'b'"), ("self.x != self.x", None),
    ("matches_a(self.x)", "matches_b(self.x)"), ("matches_a(self.x)", "not matches_a(self.x)"),
    ("len(self.x) > 5 and len(self.x) < 3", None), ("len(self.x) > 5", "not (len(self.x) > 5)"),
    ("self.x in Some_set", "self.x not in Some_set"), ("len(self.x) == 2", "len(self.x) == 2"),
    ("not (self.x is not None) or len(self.x) > 5", "not (self.x is not None) or len(self.x) < 3"),
]

CONTRADICTION_TYPES = ["str", "Optional[str]", "List[str]", "Optional[List[str]]", "bytearray", "Non_empty", "int", "List[Non_empty]"]


def contradiction_case(first: str, second: Optional[str], typ: str, inherited: bool = False, on_primitive: bool = False) -> str:
    head = (
        "@verification\ndef matches_a(text: str) -> bool:\n    return match(\"^a$\", text) is not None\n\n\n"
        "@verification\ndef matches_b(text: str) -> bool:\n    return match(\"^b$\", text) is not None\n\n\n"
        'Some_set: Set[str] = constant_set(values=["a", "b"])\n\n\n'
        '@invariant(lambda self: len(self) >= 1, "non-empty")\nclass Non_empty(str, DBC):\n    pass\n\n\n'
    )
    inv1 = f'@invariant(lambda self: {first}, "first")\n'
    inv2 = f'@invariant(lambda self: {second}, "second")\n' if second else ""
    if on_primitive:
        body = (
            inv1.replace("self.x", "self") + inv2.replace("self.x", "self")
            + "class Constrained(str, DBC):\n    pass\n"
        )
    elif inherited:
        body = (
            inv1 + f"class Parent:\n    x: {typ}\n\n    def __init__(self, x: {typ}) -> None:\n        self.x = x\n\n\n"
            + inv2 + f"class Child(Parent):\n    def __init__(self, x: {typ}) -> None:\n        Parent.__init__(self, x=x)\n"
        )
    else:
        body = inv1 + inv2 + f"class Something:\n    x: {typ}\n\n    def __init__(self, x: {typ}) -> None:\n        self.x = x\n"
    return head + body + FOOTER


def _insert_top_level(text: str, snippet: str, rng: random.Random) -> str:
    """Insert ``snippet`` at a top-level statement boundary (or a random line if unparsable)."""
    tree = _parse(text)
    lines = _lines(text)
    if tree is not None and tree.body:
        cuts = [0] + [getattr(n, "end_lineno", 1) for n in tree.body]
        # Put it before the decorators of a statement, not between decorator and class.
        k = rng.choice(cuts)
    else:
        k = rng.randrange(len(lines) + 1) if lines else 0
    if lines and k > 0 and not lines[k - 1].endswith("\n"):
        lines[k - 1] += "\n"
    return "".join(lines[:k]) + "\n" + snippet + "\n" + "".join(lines[k:])


def inject_constant(text, rng, donor):
    return _insert_top_level(text, gen_constant(rng), rng)


def inject_pattern_function(text, rng, donor):
    return _insert_top_level(text, gen_pattern_function(rng), rng)


def inject_prelude(text, rng, donor):
    return _insert_top_level(text, PRELUDE, rng)


def hostile_pattern_in_place(text, rng, donor):
    """Replace an existing pattern string (argument of match or ``pattern = ...``)."""
    ms = list(re.finditer(r'(pattern\s*=\s*|match\(\s*)(f?r?"(?:[^"\\\n]|\\.)*")', text))
    if not ms:
        return None
    m = rng.choice(ms)
    s, e = m.span(2)
    return text[:s] + _pyrepr(rng.choice(HOSTILE_PATTERNS)) + text[e:]


@_ast_mutator
def inject_contradictory_invariants(tree, rng, donor):
    cands = [
        (c, s) for c in _classes(tree) for s in c.body
        if isinstance(s, ast.AnnAssign) and isinstance(s.target, ast.Name)
    ]
    prim = [c for c in _classes(tree) if any(isinstance(b, ast.Name) and b.id in PRIMITIVES for b in c.bases)]
    first, second = rng.choice(CONTRADICTIONS)
    if prim and (not cands or rng.random() < 0.3):
        c, prop = rng.choice(prim), None
    else:
        c, s = rng.choice(cands)
        prop = s.target.id
    for cond, desc in ((first, "first"), (second, "second")):
        if cond is None:
            continue
        cond = cond.replace("self.x", f"self.{prop}" if prop else "self")
        deco = _expr(f"invariant(lambda self: {cond}, {desc!r})")
        if deco is None:
            return False
        c.decorator_list.insert(0, deco)
    return True


@_ast_mutator
def implementation_specific_init(tree, rng, donor):
    fns = [f for f in _functions(tree) if f.name == "__init__"]
    if fns:
        f = rng.choice(fns)
        f.decorator_list.insert(0, ast.Name(id=rng.choice(["implementation_specific", "implementation_specific", "non_mutating", "verification", "abstract"]), ctx=ast.Load()))
        return True
    c = rng.choice(_classes(tree))
    c.body.append(ast.parse("@implementation_specific\ndef __init__(self) -> None:\n    pass\n").body[0])
    return True


@_ast_mutator
def constrained_primitive_with_members(tree, rng, donor):
    prim = [c for c in _classes(tree) if any(isinstance(b, ast.Name) and b.id in PRIMITIVES for b in c.bases)]
    if prim:
        c = rng.choice(prim)
    else:
        c = rng.choice(_classes(tree))
        c.bases.insert(0, ast.Name(id=rng.choice(PRIMITIVES), ctx=ast.Load()))
    src = rng.choice(
        ["x: int", "x: int\n\ndef __init__(self, x: int) -> None:\n    self.x = x", "def f(self) -> int:\n    return 1",
         "def __init__(self) -> None:\n    pass", "@implementation_specific\ndef f(self) -> None:\n    pass", "'''doc'''", "x = 1"]
    )
    c.body = [s for s in c.body if not isinstance(s, ast.Pass)] + ast.parse(src).body
    return True


@_ast_mutator
def add_odd_class(tree, rng, donor):
    src = rng.choice(ODD_CLASSES)
    tree.body[rng.randrange(len(tree.body) + 1):0] = ast.parse(src).body
    return True


ODD_CLASSES = [
    "class A(A):\n    pass", "class A(B):\n    pass\n\nclass B(A):\n    pass", "class A(Nonexistent):\n    pass",
    "class A(int, str):\n    pass", "class A(int, Something):\n    pass", "class A(Something, int):\n    pass",
    "class A(int):\n    x: int", "class A(Enum):\n    pass", "class A(Enum):\n    a = 1", "class A(Enum):\n    a = 'x'\n    a = 'y'",
    "class A(Enum):\n    a = 'x'\n    b = 'x'", "class A(Enum):\n    a: str = 'x'", "class A(Enum):\n    def f(self): pass",
    "class A(Enum):\n    a = 'x'\n    '''doc'''\n    '''doc2'''", "class A(Enum, int):\n    a = 'x'", "class A(str, Enum):\n    a = 'x'",
    "class A(Enum):\n    a = b = 'x'", "class A(Enum):\n    a, b = 'x', 'y'", "class A(Enum):\n    a = f'x'", "class A(Enum):\n    a = ''",
    "class A(Enum):\n    \u00e9 = 'x'", "class A(Enum):\n    a = '\\ud800'", "class A(Enum):\n    A = 'x'\n    a = 'y'",
    "@abstract\nclass A(Enum):\n    a = 'x'", "@invariant(lambda self: True, 'x')\nclass A(Enum):\n    a = 'x'",
    "@is_superset_of(enums=[A])\nclass A(Enum):\n    a = 'x'", "@is_superset_of(enums=[B])\nclass A(Enum):\n    a = 'x'\n\nclass B(Enum):\n    b = 'y'",
    "@is_superset_of(enums=[Something])\nclass A(Enum):\n    a = 'x'", "@is_superset_of(enums=[B, B])\nclass A(Enum):\n    b = 'y'\n\nclass B(Enum):\n    b = 'y'",
    "class A:\n    x: int\n    x: int", "class A:\n    x: int\n    def x(self) -> int:\n        return 1", "class A:\n    def f(self) -> None:\n        pass\n    def f(self) -> None:\n        pass",
    "class A:\n    def __init__(self, x: int, x_: int) -> None:\n        pass", "class A:\n    def __init__(self) -> None:\n        pass\n    def __init__(self) -> None:\n        pass",
    "class A:\n    x: 'int'\n    def __init__(self, x: 'int') -> None:\n        self.x = x", "class A:\n    x: 'a b'", "class A:\n    x: ''", "class A:\n    x: List['']",
    "class A:\n    @implementation_specific\n    def __init__(self) -> None:\n        pass", "class A:\n    @implementation_specific\n    @implementation_specific\n    def f(self) -> None:\n        pass",
    "@implementation_specific\nclass A:\n    x: int", "@implementation_specific\n@abstract\nclass A:\n    pass", "@abstract\n@abstract\nclass A:\n    pass",
    "@serialization(with_model_type=True)\n@serialization(with_model_type=False)\nclass A:\n    pass", "@serialization(with_model_type=True)\nclass A(int):\n    pass",
    "class A:\n    class B:\n        pass", "class A:\n    x: int = 1", "class A:\n    x = 1", "class A:\n    pass\n\nclass a:\n    pass", "class A:\n    x: int\n    X: int",
    "class A:\n    some_x: int\n    someX: int", "class A:\n    model_type: str\n    def __init__(self, model_type: str) -> None:\n        self.model_type = model_type",
    "class A:\n    def f(self, self_: int) -> None:\n        pass", "class A:\n    def f(this) -> None:\n        pass", "class A:\n    def f() -> None:\n        pass",
    "class A:\n    @staticmethod\n    def f() -> None:\n        pass", "class A:\n    async def f(self) -> None:\n        pass", "class A:\n    f = lambda self: 1",
    "class A:\n    def f(self, x: int = 1, y: int) -> None:\n        pass" if False else "class A:\n    def f(self, *, y: int) -> None:\n        pass",
    "class A:\n    def f(self, x: Optional[int]) -> None:\n        pass", "class A:\n    def f(self, x: int = None) -> None:\n        pass",
    "class A:\n    def f(self, x: List[int] = []) -> List[Optional[int]]:\n        pass", "class A:\n    @require(lambda x: x > 0)\n    def f(self, x: int) -> int:\n        return x",
    "class A:\n    @require(lambda y: y > 0)\n    def f(self, x: int) -> int:\n        return x", "class A:\n    @ensure(lambda result: result > 0)\n    def f(self) -> None:\n        pass",
    "class A:\n    @ensure(lambda OLD, result: OLD.z == result)\n    def f(self) -> int:\n        return 1", "class A:\n    @snapshot(lambda self: self.x, 'x')\n    @snapshot(lambda self: self.x, 'x')\n    @ensure(lambda OLD: OLD.x)\n    def f(self) -> int:\n        return 1",
    "class A:\n    x: Optional[int]\n    def __init__(self, x: Optional[int]) -> None:\n        self.x = x", "class A:\n    x: int\n    def __init__(self, y: int) -> None:\n        self.x = y",
    "class A:\n    x: int\n    def __init__(self, x: str) -> None:\n        self.x = x", "class A:\n    x: int\n    def __init__(self, x: int) -> None:\n        self.x = x\n        self.x = x",
    "class A:\n    x: int\n    y: int\n    def __init__(self, x: int, y: int) -> None:\n        self.x = y\n        self.y = x", "class A:\n    x: List[int]\n    def __init__(self, x: Optional[List[int]] = None) -> None:\n        self.x = x if x is not None else []",
    "class A:\n    x: List[int]\n    def __init__(self, x: Optional[List[int]] = None) -> None:\n        self.x = x if x is not None else [1]", "class A:\n    x: int\n    def __init__(self, x: Optional[int] = None) -> None:\n        self.x = x if x is not None else 1",
    "class A:\n    x: 'A'\n    def __init__(self, x: 'A') -> None:\n        self.x = x", "class A(DBC, DBC):\n    pass", "class A(DBC, metaclass=M):\n    pass", "class A(*B):\n    pass", "class A(**B):\n    pass",
    "class \u00c9:\n    \u00fc: int\n    def __init__(self, \u00fc: int) -> None:\n        self.\u00fc = \u00fc", "class A_:\n    pass", "class _A:\n    pass", "class A__b:\n    pass", "class a:\n    pass", "class A1:\n    pass", "class List:\n    pass",
    "class Optional:\n    pass", "class str:\n    pass", "class Enum:\n    pass", "class DBC:\n    pass", "class Some_enum:\n    pass", "class Something(Something):\n    pass",
    "@verification\ndef f() -> bool:\n    return True", "@verification\ndef f(x: int) -> int:\n    return x", "@verification\ndef f(x) -> bool:\n    return True", "@verification\ndef f(x: int):\n    return True",
    "@verification\n@implementation_specific\ndef f(x: int) -> bool:\n    pass", "@implementation_specific\ndef f(x: int) -> bool:\n    pass", "def f(x: int) -> bool:\n    return True", "@verification\ndef f(self) -> bool:\n    return True",
    "@verification\ndef f(x: Something) -> bool:\n    return x.x is not None", "@verification\ndef f(x: int) -> bool:\n    return f(x)", "@verification\ndef f(x: int) -> bool:\n    return g(x)\n\n@verification\ndef g(x: int) -> bool:\n    return f(x)",
    "@verification\ndef f(x: List[int]) -> bool:\n    for i in range(len(x)):\n        if x[i] > 0:\n            return False\n    return True", "@verification\ndef f(x: int) -> bool:\n    y = x\n    y = 'a'\n    return y",
    "@verification\ndef Something(x: int) -> bool:\n    return True", "@verification\ndef f(x: int) -> bool:\n    '''Doc.\n\n    :param y: nonexistent\n    :return: x\n    '''\n    return True",
    "@verification\ndef f(text: str) -> bool:\n    pattern = '^a$'\n    pattern = '^b$'\n    return match(pattern, text) is not None", "@verification\ndef f(text: str, other: str) -> bool:\n    return match('^a$', text) is not None",
    "@verification\ndef f(text: str) -> bool:\n    return match('^a$', other) is not None", "@verification\ndef f(text: int) -> bool:\n    return match('^a$', text) is not None",
    "@verification\ndef f(text: str) -> bool:\n    return match(text, '^a$') is not None", "@verification\ndef f(text: str) -> bool:\n    return match('^a$', text, 0) is not None", "@verification\ndef f(text: str) -> bool:\n    return match(pattern='^a$', string=text) is not None",
]


AST_MUTATORS: List[Tuple[str, Callable, float]] = [
    ("decorator_rename", decorator_rename, 2), ("decorator_args", decorator_args, 3),
    ("decorator_add_odd", decorator_add_odd, 5), ("decorator_duplicate", decorator_duplicate, 1),
    ("decorator_move", decorator_move, 1.5), ("dup_property", dup_property, 2),
    ("dup_argument", dup_argument, 2), ("dup_enum_literal", dup_enum_literal, 2),
    ("dup_class", dup_class, 1), ("dup_method", dup_method, 1), ("rename_base", rename_base, 3),
    ("primitive_and_class_base", primitive_and_class_base, 1.5), ("class_to_enum", class_to_enum, 1),
    ("annotation_to_string", annotation_to_string, 2), ("annotation_wrap", annotation_wrap, 3),
    ("annotation_unwrap", annotation_unwrap, 1), ("annotation_replace", annotation_replace, 4),
    ("annotation_drop", annotation_drop, 1), ("drop_returns", drop_returns, 1.5),
    ("ctor_args_reorder", ctor_args_reorder, 1.5), ("ctor_arg_rename", ctor_arg_rename, 2),
    ("ctor_arg_retype", ctor_arg_retype, 2), ("ctor_arg_kind", ctor_arg_kind, 1.5),
    ("change_default", change_default, 2.5), ("ctor_body_edit", ctor_body_edit, 3),
    ("method_body_edit", method_body_edit, 3), ("rename_identifier", rename_identifier, 3),
    ("statement_edit", statement_edit, 3), ("expr_replace", expr_replace, 4),
    ("op_replace", op_replace, 1.5), ("inject_constant", inject_constant, 5),
    ("inject_pattern_function", inject_pattern_function, 4), ("inject_prelude", inject_prelude, 1),
    ("hostile_pattern_in_place", hostile_pattern_in_place, 3),
    ("inject_contradictory_invariants", inject_contradictory_invariants, 2.5),
    ("implementation_specific_init", implementation_specific_init, 1),
    ("constrained_primitive_with_members", constrained_primitive_with_members, 1),
    ("add_odd_class", add_odd_class, 4),
]

ALL_MUTATORS = TEXT_MUTATORS + AST_MUTATORS
MUTATOR_BY_NAME = {name: f for name, f, _ in ALL_MUTATORS}


def _pick(rng: random.Random, table) -> Tuple[str, Callable]:
    total = sum(w for _, _, w in table)
    x = rng.random() * total
    for name, f, w in table:
        x -= w
        if x <= 0:
            return name, f
    return table[-1][0], table[-1][1]


def mutate(
    text: str,
    rng: random.Random,
    n_mutations: int = 1,
    donors: Optional[Sequence[str]] = None,
    ast_share: float = 0.55,
    only: Optional[Sequence[str]] = None,
) -> Tuple[str, List[str]]:
    """
    Apply ``n_mutations`` stacked mutations to ``text``.

    ``donors`` are other seed texts for splice/cross-over.  ``ast_share`` is the
    probability of trying an AST-aware mutator first (they silently fall back to a
    text mutator when not applicable).  Return the new text and the mutator names.
    """
    names: List[str] = []
    for _ in range(n_mutations):
        donor = rng.choice(list(donors)) if donors else None
        for _attempt in range(8):
            if only:
                name = rng.choice(list(only))
                func = MUTATOR_BY_NAME[name]
            elif rng.random() < ast_share:
                name, func = _pick(rng, AST_MUTATORS)
            else:
                name, func = _pick(rng, TEXT_MUTATORS)
            try:
                new = func(text, rng, donor)
            except RecursionError:
                new = None
            if new is None or new == text or len(new) > MAX_TEXT:
                continue
            text = new
            names.append(name)
            break
    return text, names


# ---------------------------------------------------------------------------
# Targeted families
# ---------------------------------------------------------------------------

BASE_CLASS = (
    "class Something:\n"
    "    x: int\n"
    "\n"
    "    def __init__(self, x: int) -> None:\n"
    "        self.x = x\n"
)

DEGENERATE_TEXTS = [
    ("empty", ""), ("newline", "\n"), ("spaces", "   "), ("only-comment", "# nothing here\n"),
    ("only-comments", "# a\n# b\n\n# c"), ("only-docstring", '"""Doc."""\n'), ("only-footer", FOOTER),
    ("only-version", '__version__ = "x"\n'), ("only-namespace", '__xml_namespace__ = "x"\n'),
    ("bom-only", "\ufeff"), ("bom-footer", "\ufeff" + FOOTER), ("nul", "\x00"), ("nul-in-comment", "# \x00\n" + FOOTER),
    ("nul-in-string", 'X: str = constant_str("\x00")\n' + FOOTER), ("formfeed", "\x0c\n" + BASE_CLASS + FOOTER),
    ("tab-indent", BASE_CLASS.replace("    ", "\t") + FOOTER), ("mixed-indent", "class A:\n\tx: int\n        y: int\n" + FOOTER),
    ("crlf", (BASE_CLASS + FOOTER).replace("\n", "\r\n")), ("cr-only", (BASE_CLASS + FOOTER).replace("\n", "\r")),
    ("no-trailing-newline", (BASE_CLASS + FOOTER).rstrip("\n")), ("trailing-backslash", BASE_CLASS + FOOTER + "\\"),
    ("syntax-unclosed-paren", "class A(:\n    pass\n"), ("syntax-unclosed-string", 'x = "abc\n'), ("syntax-triple", '"""never closed\n'),
    ("syntax-indent", "class A:\npass\n"), ("syntax-dedent", "class A:\n        x: int\n    y: int\n"), ("syntax-keyword", "class class:\n    pass\n"),
    ("syntax-py2-print", "print 'x'\n"), ("syntax-invalid-char", "x = $\n"), ("syntax-bad-escape", "x = '\\N{NOPE}'\n"), ("syntax-surrogate", "x = '\ud800'\n"),
    ("syntax-deep-parens", "x = " + "(" * 90 + "1" + ")" * 90 + "\n" + FOOTER), ("syntax-deep-lists", "X: Set[int] = constant_set(" + "[" * 90 + "]" * 90 + ")\n" + FOOTER),
    ("deep-optional", "class A:\n    x: " + "Optional[" * 80 + "int" + "]" * 80 + "\n" + FOOTER),
    ("deep-attribute", "@invariant(lambda self: self" + ".x" * 90 + ' > 0, "d")\n' + BASE_CLASS + FOOTER),
    ("deep-not", "@invariant(lambda self: " + "not " * 90 + 'self.x, "d")\n' + BASE_CLASS + FOOTER),
    ("deep-boolop", "@invariant(lambda self: " + " or ".join(["self.x > 0"] * 90) + ', "d")\n' + BASE_CLASS + FOOTER),
    ("long-chain-inheritance", "".join(f"class A{i}({'A%d' % (i - 1) if i else ''}):\n    pass\n\n\n" for i in range(60)) + FOOTER),
    ("many-classes", "".join(f"class A{i}:\n    x{i}: int\n\n    def __init__(self, x{i}: int) -> None:\n        self.x{i} = x{i}\n\n\n" for i in range(80)) + FOOTER),
    ("huge-string", 'X: str = constant_str("' + "a" * 30000 + '")\n' + FOOTER), ("huge-int", "X: int = constant_int(" + "9" * 4000 + ")\n" + FOOTER),
    ("huge-int-over-limit", "X: int = constant_int(" + "9" * 5000 + ")\n" + FOOTER), ("coding-latin1", "# -*- coding: latin-1 -*-\n" + BASE_CLASS + FOOTER),
    ("coding-unknown", "# -*- coding: nonexistent -*-\n" + BASE_CLASS + FOOTER), ("non-ascii-comment-first", "# \u4e2d\u6587 \U0001F600\n" + BASE_CLASS + FOOTER),
    ("import-plain", "import os\n" + BASE_CLASS + FOOTER), ("import-as", "from enum import Enum as E\n" + FOOTER), ("import-star", "from typing import *\n" + FOOTER),
    ("import-relative", "from . import x\n" + FOOTER), ("import-unknown", "from os import path\n" + FOOTER), ("import-wrong-module", "from os import Enum\n" + FOOTER),
    ("import-future", "from __future__ import annotations\n" + BASE_CLASS + FOOTER), ("import-in-class", "class A:\n    import os\n" + FOOTER), ("import-in-function", "class A:\n    def f(self) -> None:\n        from os import path\n" + FOOTER),
    ("version-int", BASE_CLASS + "\n__version__ = 1\n__xml_namespace__ = 'x'\n"), ("version-twice", BASE_CLASS + FOOTER + FOOTER), ("version-fstring", BASE_CLASS + "\n__version__ = f'x'\n__xml_namespace__ = 'x'\n"),
    ("version-annotated", BASE_CLASS + "\n__version__: str = 'x'\n__xml_namespace__ = 'x'\n"), ("version-tuple-target", BASE_CLASS + "\n__version__, __xml_namespace__ = 'x', 'y'\n"), ("version-chain", BASE_CLASS + "\n__version__ = __xml_namespace__ = 'x'\n"),
    ("version-empty", BASE_CLASS + "\n__version__ = ''\n__xml_namespace__ = ''\n"), ("namespace-none", BASE_CLASS + "\n__version__ = 'x'\n__xml_namespace__ = None\n"), ("book-url-int", BASE_CLASS + FOOTER + "__book_url__ = 1\n__book_version__ = 2\n"),
    ("book-ok", BASE_CLASS + FOOTER + "__book_url__ = 'u'\n__book_version__ = 'v'\n"), ("dunder-unknown", BASE_CLASS + FOOTER + "__unknown__ = 'u'\n"), ("module-docstring-bad-rst", '"""\n*unclosed\n\n.. unknown::\n"""\n' + BASE_CLASS + FOOTER),
    ("toplevel-expr", "1\n" + FOOTER), ("toplevel-call", "print(1)\n" + FOOTER), ("toplevel-if", "if True:\n    pass\n" + FOOTER), ("toplevel-assign", "x = 1\n" + FOOTER), ("toplevel-annassign-novalue", "x: int\n" + FOOTER),
    ("toplevel-augassign", "x += 1\n" + FOOTER), ("toplevel-lambda", "f = lambda: 1\n" + FOOTER), ("toplevel-async", "async def f() -> None:\n    pass\n" + FOOTER), ("toplevel-def-undecorated", "def f(x: int) -> bool:\n    return True\n" + FOOTER),
    ("toplevel-match", "match x:\n    case 1:\n        pass\n" + FOOTER), ("toplevel-type-alias", "type X = int\n" + FOOTER), ("toplevel-try", "try:\n    pass\nexcept Exception:\n    pass\n" + FOOTER), ("toplevel-del", "del x\n" + FOOTER),
    ("toplevel-two-docstrings", '"""a"""\n"""b"""\n' + FOOTER), ("class-generic-312", "class A[T]:\n    pass\n" + FOOTER), ("def-generic-312", "@verification\ndef f[T](x: int) -> bool:\n    return True\n" + FOOTER),
]


def targeted_cases(rng: random.Random, n_random: int = 200) -> Iterator[Tuple[str, str]]:
    """
    Yield ``(name, text)`` of the targeted families.

    The fixed core (about 1 500 cases) is deterministic; ``n_random`` further cases per
    random family (constants, patterns, contradictions, decorators) depend on ``rng``.
    """
    # 1. degenerate / lexical
    for name, text in DEGENERATE_TEXTS:
        yield f"degenerate/{name}", text

    # 2. constant_* : systematic arity grid with canonical values ...
    canon = {
        "constant_set": ('["a", "b"]', '"Some description."', "[Some_set]"),
        "constant_str": ('"a"', '"Some description."', '"third"'),
        "constant_int": ("1", '"Some description."', "3"),
        "constant_float": ("1.5", '"Some description."', "3"),
        "constant_bool": ("True", '"Some description."', "3"),
        "constant_bytearray": ('b"a"', '"Some description."', "3"),
    }
    for func, ann in CONSTANT_FUNCS:
        vals = list(canon[func]) + ["4", "5"]
        for npos in range(0, 6):
            yield f"constant/{func}/pos{npos}", constant_case(func, ann, vals[:npos], [])
            kw_names = ["values" if func == "constant_set" else "value", "description", "superset_of", "unknown", "values"]
            for nkw in range(1, 6 - npos):
                kws = [(kw_names[i], vals[i]) for i in range(nkw)]
                yield f"constant/{func}/pos{npos}/kw{nkw}", constant_case(func, ann, vals[:npos], kws)
    # ... every AST kind at every position of every function ...
    for func, ann in CONSTANT_FUNCS:
        vals = canon[func]
        for kind in ARG_KINDS:
            for position in range(3):
                pos = list(vals[:position]) + [kind]
                yield f"constant/{func}/kind@{position}", constant_case(func, ann, pos, [])
            kw = ["values" if func == "constant_set" else "value", "description", "superset_of"]
            for position in range(3 if func == "constant_set" else 2):
                if kind.startswith("*"):
                    continue
                yield f"constant/{func}/kind@kw-{kw[position]}", constant_case(func, ann, [], [(kw[position], kind)] + ([] if position == 0 else [(kw[0], vals[0])]))
    # ... every annotation ...
    for ann in CONSTANT_ANNOTATIONS:
        for func in ("constant_set", "constant_str", "constant_int"):
            yield f"constant/{func}/annotation", constant_case(func, ann, [canon[func][0]], [])
    # ... set contents vs item type, supersets ...
    for ann, values in [
        ("Set[str]", '["a", 1]'), ("Set[int]", '["a"]'), ("Set[int]", "[1, 1]"), ("Set[int]", "[1, True]"), ("Set[float]", "[1, 1.0]"), ("Set[bool]", "[True, 1]"),
        ("Set[bytearray]", '[b"a", b"a"]'), ("Set[Some_enum]", "[Some_enum.literal, Some_enum.literal]"), ("Set[Some_enum]", "[Some_enum.nonexistent]"),
        ("Set[Some_enum]", "[Other_enum.literal]"), ("Set[Some_enum]", '["LITERAL"]'), ("Set[str]", "[Some_enum.literal]"), ("Set[Something]", "[Something.x]"),
        ("Set[str]", "[a.b.c]"), ("Set[str]", "[Some_enum.literal.value]"), ("Set[Nonexistent]", "[Nonexistent.literal]"), ("Set[str]", "[]"), ("Set[Some_enum]", "[]"),
        ("Set[str]", '["\\ud800"]'), ("Set[str]", '["\\x00", "\U0001F600"]'), ("Set[float]", "[1e400, -1e400]"), ("Set[int]", "[2**70]"), ("Set[int]", "[" + "9" * 30 + "]"),
    ]:
        yield "constant/constant_set/contents", constant_case("constant_set", ann, [], [("values", values)])
    for sup in ["[Some_set]", "[Some_new_constant]", "[Nonexistent]", "[Some_constant]", "[Some_enum]", "[Something]", "[Some_set, Some_set]", "[]", "Some_set", "[int]"]:
        for values in ['["a", "b", "c"]', '["a"]', "[1]", "[Some_enum.literal]"]:
            yield "constant/constant_set/superset_of", constant_case("constant_set", "Set[str]", [], [("values", values), ("superset_of", sup)])
    yield "constant/cyclic-superset", PRELUDE + '\nA: Set[str] = constant_set(values=["a"], superset_of=[B])\nB: Set[str] = constant_set(values=["a"], superset_of=[A])\n' + FOOTER
    yield "constant/duplicate-name", PRELUDE + '\nSome_set: Set[str] = constant_set(values=["a"])\n' + FOOTER
    yield "constant/name-clash-class", PRELUDE + '\nSomething: Set[str] = constant_set(values=["a"])\n' + FOOTER
    for _ in range(n_random):
        yield "constant/random", PRELUDE + "\n\n" + gen_constant(rng) + FOOTER

    # 3. pattern functions
    for pattern in HOSTILE_PATTERNS:
        for shape in range(len(PATTERN_SHAPES)):
            if shape in (0, 2) or len(pattern) < 12:
                yield f"pattern/shape{shape}", pattern_case(pattern, shape, use_in_invariant=(shape != 1))
    for _ in range(n_random):
        a, b = rng.choice(HOSTILE_PATTERNS), rng.choice(HOSTILE_PATTERNS)
        k = rng.randrange(len(a) + 1)
        yield "pattern/random-splice", pattern_case(a[:k] + b + a[k:], rng.choice([0, 0, 1, 2, 4]))
    for _ in range(n_random // 2):
        yield "pattern/random-function", gen_pattern_function(rng) + "\n\n" + BASE_CLASS + FOOTER

    # 4. contradictory / unsatisfiable invariants
    for first, second in CONTRADICTIONS:
        for typ in CONTRADICTION_TYPES:
            yield "invariant/contradiction", contradiction_case(first, second, typ)
        yield "invariant/contradiction-inherited", contradiction_case(first, second, "str", inherited=True)
        yield "invariant/contradiction-inherited-list", contradiction_case(first, second, "List[str]", inherited=True)
        yield "invariant/contradiction-on-primitive", contradiction_case(first, second, "str", on_primitive=True)

    # 5. decorators
    for deco in ODD_DECORATORS:
        d = "@" + deco + "\n"
        yield "decorator/on-class", "class Some_enum(Enum):\n    literal = 'L'\n\n\n" + d + "class Something:\n    x: Optional[int]\n    xs: List[int]\n    ys: List[int]\n\n    def __init__(self, xs: List[int], ys: List[int], x: Optional[int] = None) -> None:\n        self.x = x\n        self.xs = xs\n        self.ys = ys\n" + FOOTER
        dd = "    " + d.replace("\n@", "\n    @")
        yield "decorator/on-method", "class Something:\n    x: int\n\n    def __init__(self, x: int) -> None:\n        self.x = x\n\n" + dd + "    def f(self, x: int) -> int:\n        return x\n" + FOOTER
        yield "decorator/on-init", "class Something:\n    x: int\n\n" + dd + "    def __init__(self, x: int) -> None:\n        self.x = x\n" + FOOTER
        yield "decorator/on-function", d + "def f(x: int) -> bool:\n    return True\n" + FOOTER
        yield "decorator/on-verification", "@verification\n" + d + "def f(x: int) -> bool:\n    return True\n" + FOOTER
        yield "decorator/on-enum", d + "class Some_enum(Enum):\n    literal = 'L'\n" + FOOTER
        yield "decorator/on-constrained-primitive", d + "class Some_str(str, DBC):\n    pass\n" + FOOTER

    # 6. odd classes (duplicates, primitive + class, cycles, string annotations, ...)
    for src in ODD_CLASSES:
        yield "class/odd", src + "\n" + FOOTER
        yield "class/odd-with-prelude", PRELUDE + "\n\n" + src + "\n" + FOOTER

    # 7. annotations and defaults at every site
    for ann in ANNOTATIONS:
        yield "annotation/property", f"class Some_enum(Enum):\n    literal = 'L'\n\n\nclass Something:\n    x: {ann}\n\n    def __init__(self, x: {ann}) -> None:\n        self.x = x\n" + FOOTER
        yield "annotation/property-only", f"class Something:\n    x: {ann}\n" + FOOTER
        yield "annotation/method-arg", f"class Something:\n    def f(self, x: {ann}) -> None:\n        pass\n" + FOOTER
        yield "annotation/method-return", f"class Something:\n    def f(self) -> {ann}:\n        pass\n" + FOOTER
        yield "annotation/verification-arg", f"@verification\ndef f(x: {ann}) -> bool:\n    return True\n" + FOOTER
        yield "annotation/init-return", f"class Something:\n    def __init__(self) -> {ann}:\n        pass\n" + FOOTER
    for default in DEFAULTS:
        if default.startswith("*"):
            continue
        for ann in ("int", "Optional[int]", "List[int]", "Optional[List[int]]", "Some_enum", "Optional[Some_enum]", "str"):
            yield "default/ctor", f"class Some_enum(Enum):\n    literal = 'L'\n\n\nclass Something:\n    x: {ann}\n\n    def __init__(self, x: {ann} = {default}) -> None:\n        self.x = x\n" + FOOTER
        yield "default/method", f"class Something:\n    def f(self, x: Optional[int] = {default}) -> None:\n        pass\n" + FOOTER

    # 8. identifiers
    for ident in NON_ASCII_IDENTS + RESERVED_LIKE_IDENTS:
        if not ident.isidentifier() or ident in ("None", "True", "False", "in"):
            continue
        yield "identifier/class", f"class {ident}:\n    pass\n" + FOOTER
        yield "identifier/property", f"class Something:\n    {ident}: int\n\n    def __init__(self, {ident}: int) -> None:\n        self.{ident} = {ident}\n" + FOOTER
        yield "identifier/enum-literal", f"class Some_enum(Enum):\n    {ident} = 'x'\n" + FOOTER
        yield "identifier/enum", f"class {ident}(Enum):\n    literal = 'x'\n" + FOOTER
        yield "identifier/constant", f"{ident}: str = constant_str('x')\n" + FOOTER
        yield "identifier/function", f"@verification\ndef {ident}(x: int) -> bool:\n    return True\n" + FOOTER
        yield "identifier/method", f"class Something:\n    def {ident}(self) -> None:\n        pass\n" + FOOTER
        yield "identifier/argument", f"class Something:\n    def f(self, {ident}: int) -> None:\n        pass\n" + FOOTER
        yield "identifier/base", f"class Something({ident}):\n    pass\n" + FOOTER

    # 9. descriptions (docstrings run through docutils)
    for doc in [
        "", " ", "*", "**", "`", "``", "*unclosed", ":class:`X`", ":class:`Nonexistent`", ":class:`Something`", ":attr:`x`", ":attr:`Something.nonexistent`",
        ":attr:`~Something.x`", ":meth:`Something.f`", ":unknown:`x`", ".. unknown::", ".. note::\n\n    x", "x\n===", "===\nx\n===\n\ny", ":param x: y", ":param nonexistent: y",
        ":return: x", ":returns: x", ":raise X: y", ":constraint AASd-1: x", ":constraint AASd-1:\n    x\n:constraint AASd-1:\n    y", ":constraint :", ":param: x", ":param a b c: x",
        "x\n\n    indented\n  dedent", "* a\n* b\n\n  * c", "1. a\n2. b", "| a\n| b", "+--+\n|a |\n+--+", "x_", "|x|", "[1]_", "x::\n\n    code", "\\", "\\\\", "\x00", "\ud800", "\U0001F600", "\r\n\r\n", "\t",
        ".. code-block:: python\n\n    x = 1", ".. image:: x.png", ".. include:: /etc/passwd", ".. raw:: html\n\n    <b>", ".. csv-table::\n   :file: /etc/passwd", ":ref:`x`", ":constref:`Some_set`", ":constref:`Nonexistent`",
        ":paramref:`x`", ":class:`.Something`", ":class:`~Something`", ":attr:`Some_enum.literal`", ":attr:`Some_enum.nonexistent`", "a" * 5000, "x\n\n:param x:\n\n:param x:\n",
    ]:
        lit = repr(doc)
        yield "description/class", f"class Some_enum(Enum):\n    literal = 'L'\n\n\nclass Something:\n    {lit}\n\n    x: int\n    {lit}\n\n    def __init__(self, x: int) -> None:\n        {lit}\n        self.x = x\n\n    def f(self, x: int) -> int:\n        {lit}\n        return x\n" + FOOTER
        yield "description/enum", f"class Some_enum(Enum):\n    {lit}\n\n    literal = 'L'\n    {lit}\n" + FOOTER
        yield "description/module", f"{lit}\n" + BASE_CLASS + FOOTER
        yield "description/constant", f"X: str = constant_str('x', {lit})\nY: Set[str] = constant_set(['x'], {lit})\n" + FOOTER
        yield "description/invariant", f"@invariant(lambda self: self.x > 0, {lit})\n" + BASE_CLASS + FOOTER
        yield "description/verification", f"@verification\ndef f(x: int) -> bool:\n    {lit}\n    return True\n" + FOOTER
