"""
Shared machinery of C11 / C12 (JSON Schema checks).

* :class:`SchemaGenerator` — MMG tuned for schema constraints (consistent length bounds
  along inheritance and constrained-primitive chains, guards on the same and on *other*
  properties, ``and``-joined pattern calls, compatible pattern families).
* :class:`Recogniser` — a small, independent reader of the *documented* invariant forms
  (``len(self.p) <op> k`` in both operand orders, ``matches_x(self.p)``, ``and``-joined
  pattern calls, optionally guarded by ``not (self.g is not None) or ...`` /
  ``self.g is None or ...``) over :class:`vf.pyexec.PyModel`; it never imports
  ``aas_core_codegen.infer_for_schema``.
* :class:`DirectedGenerator` — satisfying-mode instances steered towards the boundaries
  of the recognised constraints (the judge stays Python: ``all_invariants_hold``).
* schema loading, validity checks, a Draft 2019-09 validator whose ``pattern`` keyword
  works on UTF-16 code units, the node cross-check.
* twins (C12): single-violation and structural.
"""
import ast
import copy
import json
import os
import random
import re
import shutil
import subprocess
from typing import Any, Callable, Dict, Iterator, List, Optional, Sequence, Tuple

from vf import driver, env, harness, instances, mmgen, pyexec, pysdk
from vf.instances import Inst
from vf.pyexec import PRIMITIVES, PyModel, TypeRef

# ======================================================================= generator
FAMILY_PATTERNS = [
    "^[a-z][a-z0-9_]*$",
    "^[a-zA-Z0-9_]+$",
    "^[^ ]*$",
    "^(a|b|c|x)[a-z0-9]*$",
    "^.+$",
    "^[a-z]+[0-9]?$",
    "^[a-c]{1,4}[a-z0-9]*$",
]
ASTRAL_FAMILY = [
    "^[a-z\\U0001f600]+$",
    "^(\\U0001f600|[a-z])*$",
    "^[\\U00010000-\\U0010ffff]{1,3}$",
    "^[a-z]*\\U0001f642?$",
]


def default_profile(index: int) -> mmgen.Profile:
    return mmgen.Profile(
        sdk_safe=True,
        schema_invariants_only=True,
        n_classes=(2, 8),
        n_cprims=(1, 4),
        n_enums=(0, 2),
        n_pattern_fns=(1, 3),
        n_transpilable_fns=(0, 0),
        n_impl_fns=(0, 0),
        n_const_sets=(0, 2),
        n_const_prims=(0, 0),
        p_invariant=0.9,
        max_invariants=3,
        p_list=0.35,
        p_optional=0.4,
        p_abstract=0.3,
        p_model_type=0.5,
        p_impl_method=0.0,
        p_docstrings=0.05,
        bool_cprims=False,
        astral_patterns=(index % 3 == 0),
        simple_patterns=(index % 3 == 1),
    )


class SchemaGenerator(mmgen.Generator):
    """MMG whose length bounds stay satisfiable and which adds the forms C11/C12 need."""

    def __init__(self, rng: random.Random, profile: mmgen.Profile) -> None:
        super().__init__(rng, profile)
        self.bounds: Dict[str, List[Optional[int]]] = {}
        self._len_key: Optional[str] = None
        self.p_raw_len = 0.04  # keep a few unconstrained picks (conflicts, min == 0 ...)
        self.p_cross_guard = 0.3
        self.p_and_patterns = 0.25

    # -- patterns -----------------------------------------------------------------
    def gen_funcs(self) -> None:
        super().gen_funcs()
        rng = self.rng
        family = list(FAMILY_PATTERNS)
        if self.p.astral_patterns:
            family += ASTRAL_FAMILY
        for pattern in rng.sample(family, rng.randint(1, 3)):
            name = "matches_" + self.fresh("", False)
            body = (
                f'    pattern = f"{self.fstring_src(pattern)}"\n'
                f"    return match(pattern, text) is not None"
            )
            fn = mmgen.GFunc(name, "pattern", [("text", "str")], body)
            fn.arg_types = [mmgen.T("prim", "str")]
            fn.pattern = pattern
            fn.family = True  # type: ignore[attr-defined]
            self.m.funcs.append(fn)

    # -- constrained primitives ------------------------------------------------------
    def gen_cprims(self) -> None:
        rng = self.rng
        for _ in range(self.rint(self.p.n_cprims)):
            name = self.fresh("", True)
            if self.m.cprims and rng.random() < 0.45:
                parent = rng.choice(self.m.cprims)
                cp = mmgen.GCPrim(name, parent.name, parent.prim)
                self.bounds[name] = list(self.bounds.get(parent.name, [0, None]))
                self.m.feature("cprim-chain")
            else:
                prim = rng.choice(["str", "str", "str", "str", "bytearray", "int", "float"])
                cp = mmgen.GCPrim(name, prim, prim)
                self.bounds[name] = [0, None]
            self._len_key = name
            for _ in range(rng.choice([0, 1, 1, 2])):
                if cp.prim == "str" and rng.random() < 0.2:
                    fns = [f for f in self.m.funcs if getattr(f, "family", False)]
                    if len(fns) >= 2:
                        a, b = rng.sample(fns, 2)
                        cp.invariants.append(
                            (f"{a.name}(self) and {b.name}(self)", self.description())
                        )
                        self.m.feature("cprim-and-patterns")
                        continue
                expr = self.atom(
                    "self", mmgen.T("cprim", cp.name), depth=0, simple=True, prim_override=cp.prim
                )
                cp.invariants.append((expr, self.description()))
            self._len_key = None
            self.m.cprims.append(cp)

    # -- length comparisons with a consistent interval per target --------------------
    def _prop_of(self, e: str) -> Optional[mmgen.GProp]:
        if not e.startswith("self.") or e.count(".") != 1:
            return None
        name = e[5:]
        for cls in self.m.classes:
            for prop in cls.props:
                if prop.name == name:
                    return prop
        return None

    def _initial(self, e: str) -> List[Optional[int]]:
        prop = self._prop_of(e)
        if prop is not None:
            t = prop.type.inner if prop.type.kind == "optional" else prop.type
            if t.kind == "cprim":
                return list(self.bounds.get(t.name, [0, None]))
        return [0, None]

    def len_cmp(self, e: str) -> str:
        rng = self.rng
        if rng.random() < self.p_raw_len:
            self.m.feature("len-raw")
            return super().len_cmp(e)
        key = self._len_key if e == "self" else e
        if key is None:
            return super().len_cmp(e)
        bounds = self.bounds.setdefault(key, self._initial(e))
        lo, hi = bounds
        prop = self._prop_of(e)
        is_list = False
        if prop is not None:
            t = prop.type.inner if prop.type.kind == "optional" else prop.type
            is_list = t.kind == "list"
        span = 2 if is_list else 4
        floor = max(lo or 0, 1)
        kinds = ["min", "min", "max", "max", "exact", "ne"]
        if hi is not None and hi < floor:
            kinds = ["ne"]
        kind = rng.choice(kinds)
        if kind == "ne":
            self.m.feature("len-ne")
            k = rng.randint(7, 30)
            return rng.choice([f"len({e}) != {k}", f"{k} != len({e})"])
        if kind == "min":
            top = floor + span if hi is None else min(hi, floor + span)
            k = rng.randint(floor, top)
            bounds[0] = k
            forms = [f"len({e}) >= {k}", f"len({e}) > {k - 1}", f"{k} <= len({e})", f"{k - 1} < len({e})"]
        elif kind == "max":
            top = floor + span + 3 if hi is None else hi
            k = rng.randint(floor, top)
            bounds[1] = k
            forms = [f"len({e}) <= {k}", f"len({e}) < {k + 1}", f"{k} >= len({e})", f"{k + 1} > len({e})"]
        else:
            top = floor + span if hi is None else hi
            k = rng.randint(floor, top)
            bounds[0] = bounds[1] = k
            forms = [f"len({e}) == {k}", f"{k} == len({e})"]
        self.m.feature(f"len-{kind}")
        return rng.choice(forms)

    # -- extra invariants ----------------------------------------------------------------
    def gen_class_invariants(self) -> None:
        super().gen_class_invariants()
        rng = self.rng
        patterns = [f for f in self.m.funcs if f.kind == "pattern"]
        family = [f for f in patterns if getattr(f, "family", False)]

        def beneath(t: mmgen.T) -> mmgen.T:
            return t.inner if t.kind == "optional" else t

        def prim_of(t: mmgen.T) -> Optional[str]:
            if t.kind == "prim":
                return t.name
            if t.kind == "cprim":
                return next(c.prim for c in self.m.cprims if c.name == t.name)
            return None

        for cls in self.m.classes:
            props = cls.all_props
            optionals = [p for p in props if p.type.kind == "optional"]
            required = [p for p in props if p.type.kind != "optional"]
            lengthy = [
                p for p in required
                if p.type.kind == "list" or prim_of(p.type) in ("str", "bytearray")
            ]
            if optionals and lengthy and rng.random() < self.p_cross_guard:
                g = rng.choice(optionals)
                b = rng.choice(lengthy)
                if prim_of(b.type) == "str" and patterns and rng.random() < 0.5:
                    fn = rng.choice(family or patterns)
                    body = f"{fn.name}(self.{b.name})"
                    kind = "pattern"
                else:
                    body = self.len_cmp(f"self.{b.name}")
                    kind = "len"
                if rng.random() < 0.5:
                    expr = f"not (self.{g.name} is not None) or {body}"
                    form = "implication"
                else:
                    expr = f"(self.{g.name} is None) or ({body})"
                    form = "is-none-or"
                cls.invariants.append((expr, self.description()))
                self.m.feature(f"cross-guard-{kind}-{form}")
            strs = [p for p in props if prim_of(beneath(p.type)) == "str"]
            if strs and len(family) >= 2 and rng.random() < self.p_and_patterns:
                p = rng.choice(strs)
                a, b = rng.sample(family, 2)
                body = f"{a.name}(self.{p.name}) and {b.name}(self.{p.name})"
                if p.type.kind == "optional":
                    expr = rng.choice(
                        [f"not (self.{p.name} is not None) or ({body})", f"(self.{p.name} is None) or ({body})"]
                    )
                else:
                    expr = body
                cls.invariants.append((expr, self.description()))
                self.m.feature("and-joined-patterns")

    def fix_model_types(self) -> None:
        super().fix_model_types()
        for cls in self.m.classes:
            if cls.abstract:
                continue
            has_concrete_descendant = any(
                (not d.abstract) and cls.name in self.ancestor_names(d) for d in self.m.classes
            )
            if has_concrete_descendant and not self.effective_model_type(cls):
                if self.rng.random() < 0.95:
                    candidates = [cls] + [self.by_name(a) for a in self.ancestor_names(cls)]
                    self.rng.choice(candidates).with_model_type = True


def generate_model(rng: random.Random, index: int) -> mmgen.Model:
    model = SchemaGenerator(rng, default_profile(index)).generate()
    if index % 3 == 1:
        # same meta-model, enumerations and constrained primitives declared in another
        # order (a constrained primitive may come before its parent)
        model.text = mmgen.shuffle_class_order(model.text, rng)
        model.feature("declaration-order-permuted")
    return model


# ======================================================================= recogniser
class Rec:
    """One recognised constraint, read off one invariant."""

    def __init__(self, kind: str, value: Any, target: Optional[str], guard, conj: bool,
                 inv: pyexec.RefInvariant, declared_in: str, op_form: str = "") -> None:
        self.kind = kind  # "len-min" | "len-max" | "pattern"
        self.value = value  # int, or (function name, pattern)
        self.target = target  # property name; None = ``self`` of a constrained primitive
        self.guard = guard  # None | (form, guard property)
        self.conj = conj
        self.inv = inv
        self.declared_in = declared_in
        self.op_form = op_form

    @property
    def conditional_on_other(self) -> bool:
        return self.guard is not None and self.guard[1] != self.target

    @property
    def guard_form(self) -> str:
        if self.guard is None:
            return "unguarded"
        same = "same" if self.guard[1] == self.target else "other"
        return f"{self.guard[0]}-on-{same}-property"

    def __repr__(self) -> str:
        return f"<{self.kind} {self.value!r} on {self.target} {self.guard_form} in {self.declared_in}>"


def _self_prop(node: ast.AST) -> Optional[str]:
    if (
        isinstance(node, ast.Attribute)
        and isinstance(node.value, ast.Name)
        and node.value.id == "self"
    ):
        return node.attr
    return None


def _is_none_const(node: ast.AST) -> bool:
    return isinstance(node, ast.Constant) and node.value is None


class Recogniser:
    """
    Read the documented invariant forms; everything else is "unrecognised" and ignored.

    The forms are those written in the doc-strings of ``infer_for_schema`` (and listed
    in the statement of C15); the *meaning* of each recognised constraint is checked
    against Python itself before a twin is judged (see :func:`violates_per_python`).
    """

    def __init__(self, pm: PyModel) -> None:
        self.pm = pm
        self.pattern_fns = {
            name: fn.pattern for name, fn in pm.functions.items()
            if fn.pattern is not None and fn.is_verification and not fn.implementation_specific
        }
        self._by_class: Dict[str, List[Rec]] = {}
        self._by_cprim: Dict[str, List[Rec]] = {}
        self.unrecognised = 0
        self.recognised = 0

    # -- parsing one invariant ---------------------------------------------------
    def _target(self, node: ast.AST, on_self: bool) -> Optional[str]:
        if on_self:
            return "" if isinstance(node, ast.Name) and node.id == "self" else None
        return _self_prop(node)

    def _len_call(self, node: ast.AST, on_self: bool) -> Optional[str]:
        if (
            isinstance(node, ast.Call)
            and isinstance(node.func, ast.Name)
            and node.func.id == "len"
            and len(node.args) == 1
            and not node.keywords
        ):
            return self._target(node.args[0], on_self)
        return None

    @staticmethod
    def _int(node: ast.AST) -> Optional[int]:
        if isinstance(node, ast.Constant) and type(node.value) is int:
            return node.value
        return None

    def _atoms(self, node: ast.AST, on_self: bool) -> List[Tuple[str, Any, str, str]]:
        """Return [(kind, value, target, op_form)] for a len comparison or pattern call."""
        if isinstance(node, ast.Compare) and len(node.ops) == 1:
            op = type(node.ops[0]).__name__
            left, right = node.left, node.comparators[0]
            target = self._len_call(left, on_self)
            k = self._int(right)
            side = "len-left"
            if target is None or k is None:
                target = self._len_call(right, on_self)
                k = self._int(left)
                side = "len-right"
                # mirror the operator so that it reads ``len(.) <op> k``
                op = {"Lt": "Gt", "LtE": "GtE", "Gt": "Lt", "GtE": "LtE"}.get(op, op)
            if target is None or k is None:
                return []
            form = f"{side}/{op}"
            if op == "Lt":
                return [("len-max", k - 1, target, form)]
            if op == "LtE":
                return [("len-max", k, target, form)]
            if op == "Gt":
                return [("len-min", k + 1, target, form)]
            if op == "GtE":
                return [("len-min", k, target, form)]
            if op == "Eq":
                return [("len-min", k, target, form), ("len-max", k, target, form)]
            return []
        if (
            isinstance(node, ast.Call)
            and isinstance(node.func, ast.Name)
            and node.func.id in self.pattern_fns
            and len(node.args) == 1
            and not node.keywords
        ):
            target = self._target(node.args[0], on_self)
            if target is not None:
                return [("pattern", (node.func.id, self.pattern_fns[node.func.id]), target, "call")]
        return []

    def parse(self, inv: pyexec.RefInvariant, declared_in: str, on_self: bool) -> List[Rec]:
        body = inv.node.body
        guard = None
        if not on_self and isinstance(body, ast.BoolOp) and isinstance(body.op, ast.Or) and len(body.values) == 2:
            first, second = body.values
            if (
                isinstance(first, ast.UnaryOp)
                and isinstance(first.op, ast.Not)
                and isinstance(first.operand, ast.Compare)
                and len(first.operand.ops) == 1
                and isinstance(first.operand.ops[0], ast.IsNot)
                and _is_none_const(first.operand.comparators[0])
                and _self_prop(first.operand.left) is not None
            ):
                guard = ("implication", _self_prop(first.operand.left))
                body = second
            elif (
                isinstance(first, ast.Compare)
                and len(first.ops) == 1
                and isinstance(first.ops[0], ast.Is)
                and _is_none_const(first.comparators[0])
                and _self_prop(first.left) is not None
            ):
                guard = ("is-none-or", _self_prop(first.left))
                body = second
            else:
                return []
        out: List[Rec] = []
        if isinstance(body, ast.BoolOp) and isinstance(body.op, ast.And):
            for value in body.values:
                for kind, val, target, form in self._atoms(value, on_self):
                    if kind != "pattern":
                        continue  # only pattern calls are documented inside ``and``
                    if guard is not None and guard[1] != target:
                        # documented: inside a guarded conjunction only calls on the
                        # guarding property count; others stay conditional
                        out.append(Rec(kind, val, target or None, guard, True, inv, declared_in, form))
                        continue
                    out.append(Rec(kind, val, target or None, guard, True, inv, declared_in, form))
        else:
            for kind, val, target, form in self._atoms(body, on_self):
                out.append(Rec(kind, val, target or None, guard, False, inv, declared_in, form))
        return out

    # -- per class / constrained primitive ----------------------------------------------
    def class_recs(self, cls: str) -> List[Rec]:
        if cls not in self._by_class:
            out: List[Rec] = []
            for declared_in, inv in self.pm.all_invariants(cls):
                recs = self.parse(inv, declared_in, on_self=False)
                if recs:
                    self.recognised += 1
                else:
                    self.unrecognised += 1
                out.extend(recs)
            self._by_class[cls] = out
        return self._by_class[cls]

    def cprim_recs(self, name: str) -> List[Rec]:
        if name not in self._by_cprim:
            out: List[Rec] = []
            for declared_in, inv in self.pm.all_invariants(name):
                out.extend(self.parse(inv, declared_in, on_self=True))
            self._by_cprim[name] = out
        return self._by_cprim[name]

    def declaring_class(self, cls: str, prop: str) -> Optional[str]:
        for declared_in, p in self.pm.all_props(cls):
            if p.name == prop:
                return declared_in
        return None

    def value_kind(self, t: TypeRef) -> Optional[str]:
        """"str" | "bytes" | "list" for types that can carry the constraints, else None."""
        t = t.strip_optional()
        if t.kind == "list":
            return "list"
        if t.kind == "atomic":
            prim = self.pm.primitive_of(t.name)
            if prim == "str":
                return "str"
            if prim == "bytearray":
                return "bytes"
        return None

    def for_value(self, cls: str, prop: str, t: TypeRef, item: bool = False) -> List[Tuple[Rec, str]]:
        """
        Recognised constraints that apply *unconditionally to a present value* of
        ``cls.prop`` (``item``: to each item of the list), with their origin tag.
        """
        pm = self.pm
        t = t.strip_optional()
        out: List[Tuple[Rec, str]] = []
        if item:
            inner = t.inner
            if inner is not None and inner.kind == "atomic" and pm.is_constrained_primitive(inner.name):
                for rec in self.cprim_recs(inner.name):
                    origin = "cprim-item" if rec.declared_in == inner.name else "cprim-ancestor-item"
                    out.append((rec, origin))
            return self._applicable(out, self.value_kind(inner) if inner is not None else None)
        kind = self.value_kind(t)
        prop_home = self.declaring_class(cls, prop)
        for rec in self.class_recs(cls):
            if rec.target != prop or rec.conditional_on_other:
                continue
            if rec.declared_in == cls:
                origin = "own-invariant-on-own-property" if prop_home == cls else "own-invariant-on-inherited-property"
            elif rec.declared_in == prop_home:
                origin = "ancestor-invariant-on-its-own-property"
            else:
                origin = "ancestor-invariant-on-inherited-property"
            out.append((rec, origin))
        if t.kind == "atomic" and pm.is_constrained_primitive(t.name):
            for rec in self.cprim_recs(t.name):
                origin = "cprim" if rec.declared_in == t.name else "cprim-ancestor"
                out.append((rec, origin))
        return self._applicable(out, kind)

    @staticmethod
    def _applicable(recs: List[Tuple[Rec, str]], kind: Optional[str]) -> List[Tuple[Rec, str]]:
        if kind is None:
            return []
        if kind == "str":
            return recs
        return [(r, o) for r, o in recs if r.kind != "pattern"]

    def misread_candidates(self, cls: str, prop: str) -> List[Rec]:
        """Recognised-looking constraints on ``prop`` that are conditional on another property."""
        return [r for r in self.class_recs(cls) if r.target == prop and r.conditional_on_other]


def effective(recs: List[Tuple[Rec, str]]) -> Tuple[Optional[Tuple[int, Rec, str]], Optional[Tuple[int, Rec, str]], List[Tuple[Rec, str]]]:
    """Tightest lower bound, tightest upper bound (with their sources), distinct patterns."""
    lo = hi = None
    patterns: List[Tuple[Rec, str]] = []
    seen = set()
    for rec, origin in recs:
        if rec.kind == "len-min":
            if lo is None or rec.value > lo[0]:
                lo = (rec.value, rec, origin)
        elif rec.kind == "len-max":
            if hi is None or rec.value < hi[0]:
                hi = (rec.value, rec, origin)
        elif rec.kind == "pattern" and rec.value[1] not in seen:
            seen.add(rec.value[1])
            patterns.append((rec, origin))
    return lo, hi, patterns


def violates_per_python(pm: PyModel, rec: Rec, owner_shadow: Any, value: Any) -> Optional[bool]:
    """
    Ask Python whether the invariant behind ``rec`` fails (True), holds (False) or
    cannot be evaluated (None) — on the shadow object of the owner, or on the raw value
    for a constrained primitive.
    """
    func = rec.inv.func
    if func is None:
        return None
    arg = value if rec.target is None else owner_shadow
    try:
        return func(arg) is not True
    except Exception:
        return None


# ======================================================================= instances
class DirectedGenerator(instances.SatisfyingGenerator):
    """
    Satisfying-mode generator steered by the recognised constraints: values sit at and
    around the inferred boundaries (lengths ``min``/``max``, strings from each pattern).
    The verdict "satisfying" is still Python's (``_holds`` / ``all_invariants_hold``).
    """

    def __init__(self, pm: PyModel, rng: random.Random, rec: Recogniser, **kwargs: Any) -> None:
        super().__init__(pm, rng, **kwargs)
        self.rec = rec
        self.tries_instance = 30
        self.work_budget = 1500
        self.max_list = 7
        self._single: Dict[str, Dict[str, List[Any]]] = {}
        self._pools: Dict[str, Dict[str, List[Any]]] = {}

    # -- directed primitives ----------------------------------------------------------
    def pick_len(self, lo: Optional[int], hi: Optional[int], cap: int) -> int:
        rng = self.rng
        lo_v = lo if lo is not None else 0
        hi_v = hi if hi is not None else lo_v + rng.choice([0, 1, 2, 5])
        if hi_v < lo_v:
            return lo_v
        r = rng.random()
        if r < 0.35:
            n = lo_v
        elif r < 0.7:
            n = hi_v
        else:
            n = rng.randint(lo_v, hi_v)
        if n > cap:
            n = max(lo_v, cap)  # keep documents small, but never below the bound
        return n

    def string_for(self, lo: Optional[int], hi: Optional[int], patterns: List[str], want: Optional[int] = None) -> Optional[str]:
        """A string matching all ``patterns`` with a length in [lo, hi] (``want`` if given)."""
        rng = self.rng
        compiled = [re.compile(p) for p in patterns]

        def ok(s: str) -> bool:
            if want is not None and len(s) != want:
                return False
            if lo is not None and len(s) < lo:
                return False
            if hi is not None and len(s) > hi:
                return False
            return all(c.match(s) is not None for c in compiled)

        target = want if want is not None else self.pick_len(lo, hi, 24)
        if not patterns:
            alphabet = rng.choice(["abc", "xyzXYZ", "0123456789", "a", "abcxyz019_-", "aé\U0001F600b"])
            return "".join(rng.choice(alphabet) for _ in range(target))
        for attempt in range(40):
            sampler = instances.RegexSampler(rng, max_repeat=max(4, min(target + 1, 24)))
            s = sampler.sample(rng.choice(patterns))
            if s is None:
                continue
            if ok(s):
                if s and rng.random() < 0.15:
                    # probe the UTF-16 convention: an astral character wherever Python admits one
                    k = rng.randrange(len(s))
                    astral = s[:k] + rng.choice("\U0001F600\U00010000\U0010FFFF") + s[k + 1:]
                    if ok(astral):
                        return astral
                return s
            # repair the length by repeating / cutting inside the string
            if len(s) > target:
                cut = s[: target]
                if ok(cut):
                    return cut
                cut = s[:1] + s[len(s) - target + 1:] if target >= 1 else ""
                if ok(cut):
                    return cut
            elif s:
                k = rng.randrange(len(s))
                grown = s[:k] + s[k] * (target - len(s)) + s[k:]
                if ok(grown):
                    return grown
        return None

    # -- invariants that speak about exactly one property: repair that property alone -----
    def _single_property_invariants(self, cls: str) -> Dict[str, List[Any]]:
        cached = self._single.get(cls)
        if cached is not None:
            return cached
        result: Dict[str, List[Any]] = {}
        pools: Dict[str, List[Any]] = {}
        for _, inv in self.pm.all_invariants(cls):
            if inv.func is None:
                continue
            names = set()
            bare_self = False
            for node in ast.walk(inv.node.body):
                if isinstance(node, ast.Attribute) and isinstance(node.value, ast.Name) and node.value.id == "self":
                    names.add(node.attr)
                elif isinstance(node, ast.Name) and node.id == "self":
                    bare_self = True
            # every ``self`` occurrence must be the ``self.<p>`` of one property
            n_self = sum(1 for node in ast.walk(inv.node.body) if isinstance(node, ast.Name) and node.id == "self")
            n_attr = sum(
                1 for node in ast.walk(inv.node.body)
                if isinstance(node, ast.Attribute) and isinstance(node.value, ast.Name) and node.value.id == "self"
            )
            if len(names) == 1 and n_self == n_attr and bare_self:
                name = next(iter(names))
                result.setdefault(name, []).append(inv.func)
                for node in ast.walk(inv.node.body):
                    if (
                        isinstance(node, ast.Compare)
                        and len(node.ops) == 1
                        and isinstance(node.ops[0], ast.In)
                        and _self_prop(node.left) == name
                        and isinstance(node.comparators[0], ast.Name)
                    ):
                        const = self.pm.constants.get(node.comparators[0].id)
                        if const is not None and isinstance(const.value, (set, frozenset)):
                            pools.setdefault(name, []).extend(
                                v for v in const.value if isinstance(v, (str, int)) and not isinstance(v, bool)
                            )
        self._single[cls] = result
        self._pools[cls] = pools
        return result

    def directed_value(self, cls: str, prop: pyexec.RefProp, depth: int) -> Any:
        invs = self._single_property_invariants(cls).get(prop.name)
        if not invs:
            return self.candidate_value(cls, prop, depth)
        pool = self._pools.get(cls, {}).get(prop.name)
        inner = prop.type.strip_optional()
        heavy = not (inner.kind == "atomic" and (inner.name in PRIMITIVES or self.pm.primitive_of(inner.name) is not None or self.pm.is_enum(inner.name)))
        for _ in range(8 if heavy else 25):
            if pool and self.rng.random() < 0.7:
                value = self.rng.choice(pool)
            else:
                value = self.candidate_value(cls, prop, depth)
            stub = self.pm.new_instance(cls, {prop.name: instances.to_shadow(self.pm, value)})
            ok = True
            for func in invs:
                try:
                    if func(stub) is not True:
                        ok = False
                        break
                except Exception:
                    ok = False
                    break
            if ok:
                return value
            self.stats["retries"] += 1
        raise instances.Unsatisfied(f"no value for {cls}.{prop.name}")

    def candidate_value(self, cls: str, prop: pyexec.RefProp, depth: int) -> Any:
        rng = self.rng
        pm = self.pm
        t = prop.type
        if t.kind == "optional":
            inner_t = t.inner
            holds_objects = (
                (inner_t.kind == "atomic" and pm.is_class(inner_t.name))
                or (inner_t.kind == "list" and inner_t.inner.kind == "atomic" and pm.is_class(inner_t.inner.name))
            )
            p_none = 0.35 if not holds_objects else (0.4, 0.6, 0.85)[min(depth, 2)]
            if rng.random() < p_none or not self._can_build(t.inner, depth):
                return None
            t = t.inner
        kind = self.rec.value_kind(t)
        if kind is None or rng.random() < 0.1:
            return self.gen_value(t, depth)
        recs = self.rec.for_value(cls, prop.name, t)
        extra = self.rec.misread_candidates(cls, prop.name)
        if extra and rng.random() < 0.5:
            # sometimes satisfy the conditional constraints as well (guard may be set)
            recs = recs + [(r, "conditional") for r in extra]
        lo, hi, pats = effective(recs)
        lo_v = lo[0] if lo else None
        hi_v = hi[0] if hi else None
        if kind == "str":
            s = self.string_for(lo_v, hi_v, [r.value[1] for r, _ in pats])
            if s is None:
                raise instances.Unsatisfied(f"no string for {cls}.{prop.name}")
            return s
        if kind == "bytes":
            n = self.pick_len(lo_v, hi_v, 40)
            return bytes(rng.randrange(256) for _ in range(n))
        # list
        if not self._can_build(t.inner, depth):
            return []
        of_objects = t.inner.kind == "atomic" and pm.is_class(t.inner.name)
        cap = (3, 2, 1)[min(depth, 2)] if of_objects else self.max_list
        n = self.pick_len(lo_v, hi_v, cap)
        if lo_v is not None and n < lo_v:
            raise instances.Unsatisfied(f"list {cls}.{prop.name} needs {lo_v} items")
        return [self.item_value(cls, prop, t, depth) for _ in range(n)]

    def item_value(self, cls: str, prop: pyexec.RefProp, t: TypeRef, depth: int) -> Any:
        inner = t.inner
        kind = self.rec.value_kind(inner)
        if kind in ("str", "bytes") and inner.kind == "atomic" and self.pm.is_constrained_primitive(inner.name):
            lo, hi, pats = effective(self.rec.for_value(cls, prop.name, t, item=True))
            lo_v = lo[0] if lo else None
            hi_v = hi[0] if hi else None
            if kind == "str":
                s = self.string_for(lo_v, hi_v, [r.value[1] for r, _ in pats])
                if s is not None and self._holds(self.pm.all_invariants(inner.name), s):
                    return s
            else:
                n = self.pick_len(lo_v, hi_v, 40)
                b = bytes(self.rng.randrange(256) for _ in range(n))
                if self._holds(self.pm.all_invariants(inner.name), b):
                    return b
        return self.gen_value(inner, depth)

    def build_props(self, cls: str, depth: int) -> Inst:
        props: Dict[str, Any] = {}
        for _, prop in self.pm.all_props(cls):
            props[prop.name] = self.directed_value(cls, prop, depth)
        return Inst(cls, props)

    def gen_instance(self, cls: str, depth: int = 0) -> Inst:
        invs = self.pm.all_invariants(cls)
        last_error: Optional[Exception] = None
        if depth == 0:
            self._work = 0
        tries = (self.tries_instance if depth == 0 else 6) if invs else 2
        for _ in range(tries):
            self._work += 1
            if self._work > self.work_budget:
                self.stats["unsatisfied"] += 1
                raise instances.Unsatisfied(f"work budget exhausted at class {cls}")
            try:
                inst = self.build_props(cls, depth)
            except instances.Unsatisfied as err:
                last_error = err
                self.stats["retries"] += 1
                continue
            if not invs or self._holds(invs, instances.to_shadow(self.pm, inst)):
                self.stats["instances"] += 1
                return inst
            self.stats["retries"] += 1
        self.stats["unsatisfied"] += 1
        raise instances.Unsatisfied(f"class {cls}: {last_error}")


# ======================================================================= schema tooling
def parse_json_strict(text: str) -> Tuple[Any, List[str]]:
    """Parse JSON and report duplicated object keys (a plain ``json.loads`` hides them)."""
    duplicates: List[str] = []

    def hook(pairs):
        seen = set()
        for key, _ in pairs:
            if key in seen:
                duplicates.append(key)
            seen.add(key)
        return dict(pairs)

    return json.loads(text, object_pairs_hook=hook), duplicates


def iter_refs(node: Any, path: str = "#") -> Iterator[Tuple[str, str]]:
    if isinstance(node, dict):
        for key, value in node.items():
            if key == "$ref" and isinstance(value, str):
                yield path, value
            elif key in ("enum", "const", "examples", "default"):
                continue
            else:
                yield from iter_refs(value, f"{path}/{key}")
    elif isinstance(node, list):
        for i, value in enumerate(node):
            yield from iter_refs(value, f"{path}/{i}")


def resolve_pointer(root: Any, ref: str) -> Tuple[bool, Any]:
    """Resolve a same-document JSON pointer reference (RFC 6901); anything else fails."""
    if not ref.startswith("#"):
        return False, None
    pointer = ref[1:]
    if pointer == "":
        return True, root
    if not pointer.startswith("/"):
        return False, None
    node = root
    for token in pointer[1:].split("/"):
        token = token.replace("~1", "/").replace("~0", "~")
        if isinstance(node, dict):
            if token not in node:
                return False, None
            node = node[token]
        elif isinstance(node, list):
            if not token.isdigit() or int(token) >= len(node):
                return False, None
            node = node[int(token)]
        else:
            return False, None
    return True, node


def utf16_units(text: str) -> str:
    """Re-encode as a string with one character per UTF-16 code unit."""
    data = text.encode("utf-16-le", "surrogatepass")
    return "".join(chr(data[i] | (data[i + 1] << 8)) for i in range(0, len(data), 2))


_PATTERN_CACHE: Dict[str, Any] = {}


def utf16_search(pattern: str, text: str) -> bool:
    compiled = _PATTERN_CACHE.get(pattern)
    if compiled is None:
        compiled = _PATTERN_CACHE[pattern] = re.compile(pattern)
    return compiled.search(utf16_units(text)) is not None


def make_validator_class():
    import jsonschema
    from jsonschema import validators
    from jsonschema.exceptions import ValidationError

    def pattern_utf16(validator, patrn, instance, schema):
        if not validator.is_type(instance, "string"):
            return
        try:
            matched = utf16_search(patrn, instance)
            record_pattern_sample(patrn, instance)
            # near misses, so that the node leg compares both polarities
            k = len(instance) // 2
            for variant in (instance[:-1], instance + " ", instance[:k] + "\U0001F600" + instance[k:],
                            instance[:k] + "\u00e9" + instance[k + 1:]):
                record_pattern_sample(patrn, variant)
        except re.error as err:
            yield ValidationError(f"pattern {patrn!r} does not compile: {err}")
            return
        if not matched:
            yield ValidationError(f"{instance!r} does not match {patrn!r} (UTF-16 code units)")

    base = jsonschema.Draft201909Validator
    return validators.extend(base, validators={"pattern": pattern_utf16})


SCHEMA_KEYWORDS = {
    "minLength", "maxLength", "minItems", "maxItems", "pattern", "required", "type", "enum",
    "const", "properties", "items", "allOf", "oneOf", "anyOf", "$ref", "$id", "$schema",
    "definitions", "contentEncoding", "title", "description", "additionalProperties",
}


class Schema:
    """The generated ``schema.json`` of one meta-model, parsed, checked and ready to validate."""

    def __init__(self, text: str) -> None:
        self.text = text
        self.root, self.duplicate_keys = parse_json_strict(text)
        self.definitions = self.root.get("definitions", {}) if isinstance(self.root, dict) else {}
        self._cls = make_validator_class()
        self._validator = self._cls(self.root)
        self._by_definition: Dict[str, Any] = {}

    def validity_problems(self) -> List[Tuple[str, Dict[str, Any]]]:
        """[(mechanism key, witness)] for the 'schema is itself valid' half of C11."""
        import jsonschema
        from jsonschema import validators

        problems: List[Tuple[str, Dict[str, Any]]] = []
        for key in self.duplicate_keys:
            problems.append(("schema-invalid/duplicate-key", {"key": key}))
        declared = self.root.get("$schema") if isinstance(self.root, dict) else None
        cls = validators.validator_for(self.root, default=None)
        if cls is None:
            problems.append(("schema-invalid/undeclared-or-unknown-draft", {"$schema": declared}))
            cls = jsonschema.Draft201909Validator
        try:
            cls.check_schema(self.root)
            failed = False
        except jsonschema.exceptions.SchemaError:
            failed = True
        if failed:
            # ``check_schema`` raises on the first error only; list all of them the same way
            meta_cls = validators.validator_for(cls.META_SCHEMA, default=cls)
            meta = meta_cls(cls.META_SCHEMA, format_checker=getattr(cls, "FORMAT_CHECKER", None))
            listed = False
            for err in meta.iter_errors(self.root):
                listed = True
                keyword = str(err.validator)
                last = str(list(err.absolute_path)[-1]) if err.absolute_path else ""
                if last in SCHEMA_KEYWORDS:
                    keyword = f"{keyword}@{last}"
                problems.append(
                    (f"schema-invalid/metaschema/{keyword}",
                     {"message": err.message[:500], "path": [str(p) for p in err.absolute_path]})
                )
            if not listed:
                problems.append(("schema-invalid/metaschema/unlisted", {}))
        for where, ref in iter_refs(self.root):
            ok, _ = resolve_pointer(self.root, ref)
            if not ok:
                kind = "non-local" if not ref.startswith("#") else "dangling"
                problems.append((f"schema-invalid/unresolvable-ref/{kind}", {"at": where, "$ref": ref}))
        return problems

    def patterns(self) -> List[str]:
        found: List[str] = []

        def visit(node: Any) -> None:
            if isinstance(node, dict):
                for key, value in node.items():
                    if key == "pattern" and isinstance(value, str):
                        found.append(value)
                    elif key in ("enum", "const"):
                        continue
                    else:
                        visit(value)
            elif isinstance(node, list):
                for value in node:
                    visit(value)

        visit(self.root)
        return found

    def validator_for_definition(self, name: str):
        v = self._by_definition.get(name)
        if v is None:
            v = self._validator.evolve(schema={"$ref": f"#/definitions/{name}"})
            self._by_definition[name] = v
        return v

    def errors(self, definition: str, document: Any) -> List[Any]:
        return list(self.validator_for_definition(definition).iter_errors(document))

    def is_valid(self, definition: str, document: Any) -> bool:
        return self.validator_for_definition(definition).is_valid(document)


def leaf_errors(errors: Sequence[Any], document: Any = None) -> List[Any]:
    """
    Flatten ``oneOf``/``anyOf``/``allOf`` contexts to the errors that name a concrete
    keyword.  For a failing ``oneOf`` only the branches whose ``modelType`` constant
    agrees with the document are descended into (the others fail by design).
    """
    out: List[Any] = []

    def visit(err: Any) -> None:
        if err.context:
            here = list(err.absolute_path) + ["modelType"]
            branches: Dict[Any, List[Any]] = {}
            for sub in err.context:
                index = sub.relative_schema_path[0] if sub.relative_schema_path else None
                branches.setdefault(index, []).append(sub)
            relevant = [
                subs for subs in branches.values()
                if not any(s.validator == "const" and list(s.absolute_path) == here for s in subs)
            ]
            if not relevant:
                out.append(err)
                return
            for subs in relevant:
                for sub in subs:
                    visit(sub)
        else:
            out.append(err)

    for error in errors:
        visit(error)
    return out


# -- naming (always the repository's own functions) -------------------------------------
def definition_name(cls: str) -> str:
    from aas_core_codegen import naming
    from aas_core_codegen.common import Identifier

    return str(naming.json_model_type(Identifier(cls)))


def json_prop(name: str) -> str:
    from aas_core_codegen import naming
    from aas_core_codegen.common import Identifier

    return str(naming.json_property(Identifier(name)))


def run_jsonschema(text: str) -> Tuple[Optional[str], str, Optional[BaseException], str]:
    """Run the real ``jsonschema`` target; return (schema text | None, outcome, exc, stderr)."""
    result = driver.run_inprocess(text, "jsonschema")
    try:
        if result.exc is not None:
            return None, "crashed", result.exc, result.stderr
        if result.rc != 0:
            return None, "rejected", None, result.stderr
        path = result.output_dir / "schema.json"
        if not path.exists():
            return None, "no-schema-file", None, result.stderr
        return path.read_text(encoding="utf-8"), "ok", None, result.stderr
    finally:
        result.cleanup()
        driver._wipe_cache()


# ======================================================================= walking instance + document
class Visit:
    def __init__(self, kind: str, owner: Inst, owner_path: Tuple, prop: Optional[pyexec.RefProp],
                 value: Any, t: TypeRef, path: Tuple, jpath: Tuple) -> None:
        self.kind = kind  # "object" | "value" | "item"
        self.owner = owner
        self.owner_path = owner_path
        self.prop = prop
        self.value = value
        self.t = t  # declared type beneath Optional (for items: the item type)
        self.path = path
        self.jpath = jpath


def visits(pm: PyModel, inst: Inst, path: Tuple = (), jpath: Tuple = ()) -> Iterator[Visit]:
    yield Visit("object", inst, path, None, inst, TypeRef("atomic", inst.cls), path, jpath)
    for _, prop in pm.all_props(inst.cls):
        value = inst.props.get(prop.name)
        if value is None:
            continue
        t = prop.type.strip_optional()
        p = path + (prop.name,)
        jp = jpath + (json_prop(prop.name),)
        yield Visit("value", inst, path, prop, value, t, p, jp)
        if t.kind == "list":
            for i, item in enumerate(value):
                yield Visit("item", inst, path, prop, item, t.inner, p + (i,), jp + (i,))
                if isinstance(item, Inst):
                    yield from visits(pm, item, p + (i,), jp + (i,))
        elif isinstance(value, Inst):
            yield from visits(pm, value, p, jp)


def get_at(root: Any, path: Tuple) -> Any:
    node = root
    for seg in path:
        node = node.props[seg] if isinstance(node, Inst) else node[seg]
    return node


def replace_at(root: Any, path: Tuple, new: Any) -> Any:
    """Copy of the tree with the value at ``path`` replaced (copies only along the path)."""
    if not path:
        return new
    seg = path[0]
    if isinstance(root, Inst):
        props = dict(root.props)
        props[seg] = replace_at(props[seg], path[1:], new)
        return Inst(root.cls, props)
    items = list(root)
    items[seg] = replace_at(items[seg], path[1:], new)
    return items


def doc_get(doc: Any, jpath: Tuple) -> Any:
    node = doc
    for seg in jpath:
        node = node[seg]
    return node


def doc_replace(doc: Any, jpath: Tuple, edit: Callable[[Any], Any]) -> Any:
    """Deep copy of ``doc`` in which ``edit`` was applied to the node at ``jpath``."""
    new = copy.deepcopy(doc)
    if not jpath:
        return edit(new)
    parent = doc_get(new, jpath[:-1])
    parent[jpath[-1]] = edit(parent[jpath[-1]])
    return new


def b64len(n: int) -> int:
    return 4 * ((n + 2) // 3)


def serialise(sdk: pysdk.Sdk, inst: Inst) -> Any:
    """The JSON document the generated SDK produces for ``inst`` (through real JSON text)."""
    obj = sdk.build(inst)
    return json.loads(json.dumps(sdk.jsonization.to_jsonable(obj)))


# ======================================================================= twins (C12)
class Twin:
    def __init__(self, kind: str, visit: Visit, new_value: Any, rec: Rec, origin: str,
                 value_kind: str, pure: bool, detail: str = "") -> None:
        self.kind = kind  # len-min | len-max | pattern
        self.visit = visit
        self.new_value = new_value
        self.rec = rec
        self.origin = origin
        self.value_kind = value_kind
        self.pure = pure
        self.detail = detail


class TwinMaker:
    def __init__(self, pm: PyModel, rec: Recogniser, gen: DirectedGenerator, rng: random.Random) -> None:
        self.pm = pm
        self.rec = rec
        self.gen = gen
        self.rng = rng

    # -- strings -------------------------------------------------------------------
    def _string_of_length(self, base: str, want: int, patterns: List[str]) -> Tuple[str, bool]:
        s = self.gen.string_for(None, None, patterns, want=want) if want >= 0 else None
        if s is not None:
            return s, True
        # fall back: cut / pad the valid value; report whether all patterns still hold
        if len(base) >= want:
            s = base[:want]
        else:
            filler = base[-1] if base else "a"
            s = base + filler * (want - len(base))
        ok = all(re.match(p, s) is not None for p in patterns)
        return s, ok

    def _outside_pattern(self, base: str, target: str, others: List[str], lo: Optional[int], hi: Optional[int]) -> Tuple[Optional[str], bool]:
        rng = self.rng
        bad = re.compile(target)
        good = [re.compile(p) for p in others]

        def in_len(s: str) -> bool:
            return (lo is None or len(s) >= lo) and (hi is None or len(s) <= hi)

        impure: Optional[str] = None
        candidates: List[str] = []
        for _ in range(12):
            if base:
                k = rng.randrange(len(base))
                for ch in ["!", " ", "A", "0", "é", "_", "\U0001F600", "z"]:
                    candidates.append(base[:k] + ch + base[k + 1:])
                candidates.append(base[:k] + base[k + 1:])
            candidates.append(base + rng.choice(["!", " ", "A", "0", "-"]))
            candidates.append(rng.choice(["!", " ", "A", "0"]) + base)
        for other in others:
            for _ in range(6):
                s = self.gen.sampler.sample(other)
                if s is not None:
                    candidates.append(s)
        candidates += ["", " ", "!", "A", "0", "a b", "Aa", "9z", "-", "a" * 30]
        rng.shuffle(candidates)
        for s in candidates:
            if bad.match(s) is not None:
                continue
            if in_len(s) and all(g.match(s) is not None for g in good):
                return s, True
            if impure is None:
                impure = s
        return impure, False

    def for_visit(self, v: Visit) -> List[Twin]:
        rng = self.rng
        value_kind = self.rec.value_kind(v.t)
        if value_kind is None or v.prop is None:
            return []
        recs = self.rec.for_value(v.owner.cls, v.prop.name, v.prop.type, item=(v.kind == "item"))
        if not recs:
            return []
        lo, hi, pats = effective(recs)
        lo_v = lo[0] if lo else None
        hi_v = hi[0] if hi else None
        patterns = [r.value[1] for r, _ in pats]
        twins: List[Twin] = []
        wants: List[Tuple[str, int, Rec, str]] = []
        if lo is not None and lo[0] >= 1:
            wants.append(("len-min", lo[0] - 1, lo[1], lo[2]))
            if value_kind == "bytes":
                n = 3 * ((lo[0] + 2) // 3 - 1)
                if 0 <= n < lo[0] - 1:
                    wants.append(("len-min", n, lo[1], lo[2]))
        if hi is not None and hi[0] >= 0:
            wants.append(("len-max", hi[0] + 1, hi[1], hi[2]))
            if value_kind == "bytes":
                n = 3 * ((hi[0] + 2) // 3) + 1
                if n > hi[0] + 1:
                    wants.append(("len-max", n, hi[1], hi[2]))
        for kind, n, rec, origin in wants:
            if n > 60:
                continue
            if value_kind == "str":
                s, pure = self._string_of_length(v.value, n, patterns)
                twins.append(Twin(kind, v, s, rec, origin, value_kind, pure, f"length {n}"))
            elif value_kind == "bytes":
                twins.append(Twin(kind, v, bytes(rng.randrange(256) for _ in range(n)), rec, origin,
                                  value_kind, True, f"length {n}"))
            else:
                items = list(v.value)
                if n < len(items):
                    items = items[:n]
                else:
                    try:
                        while len(items) < n:
                            if items and rng.random() < 0.5:
                                items.append(copy.deepcopy(rng.choice(items)))
                            else:
                                items.append(self.gen.item_value(v.owner.cls, v.prop, v.t, len(v.path)))
                    except instances.Unsatisfied:
                        continue
                    except ValueError:
                        continue
                twins.append(Twin(kind, v, items, rec, origin, value_kind, True, f"{n} items"))
        if value_kind == "str":
            for i, (rec, origin) in enumerate(pats):
                others = [p for j, p in enumerate(patterns) if j != i]
                s, pure = self._outside_pattern(v.value, rec.value[1], others, lo_v, hi_v)
                if s is None:
                    continue
                twins.append(Twin("pattern", v, s, rec, origin, value_kind, pure, rec.value[1]))
        return twins

    def bytes_twin_expressible(self, twin: Twin, lo: Optional[int], hi: Optional[int]) -> bool:
        """The statement's exclusion: the base64 text length must leave the expressible range."""
        length = b64len(len(twin.new_value))
        if lo is not None and length < b64len(lo):
            return True
        if hi is not None and length > b64len(hi):
            return True
        return False


def json_kind(pm: PyModel, t: TypeRef) -> str:
    t = t.strip_optional()
    if t.kind == "list":
        return "array"
    if t.kind == "atomic":
        if pm.is_enum(t.name):
            return "enum"
        prim = pm.primitive_of(t.name)
        if prim is not None:
            return {"bool": "boolean", "int": "integer", "float": "number", "str": "string",
                    "bytearray": "bytes"}[prim]
        return "object"
    return "unknown"


MISTYPES: Dict[str, List[Tuple[str, Any]]] = {
    "string": [("number", 7), ("boolean", True), ("array", ["x"]), ("object", {"a": 1}), ("null", None)],
    "bytes": [("number", 7), ("boolean", False), ("array", []), ("object", {}), ("null", None)],
    "enum": [("number", 0), ("boolean", True), ("array", []), ("object", {}), ("null", None)],
    "boolean": [("string", "true"), ("number", 1), ("array", []), ("object", {}), ("null", None)],
    "integer": [("string", "1"), ("boolean", True), ("array", [1]), ("object", {}), ("null", None), ("fraction", 1.5)],
    "number": [("string", "1.5"), ("boolean", False), ("array", [1.5]), ("object", {}), ("null", None)],
    "array": [("string", "x"), ("number", 3), ("boolean", True), ("object", {"0": 1}), ("null", None)],
    "object": [("string", "x"), ("number", 3), ("boolean", False), ("array", []), ("null", None)],
}


# ======================================================================= pipeline shared by C11 / C12
PATTERN_SAMPLES: Dict[Tuple[str, str], bool] = {}
MAX_PATTERN_SAMPLES = 800


def record_pattern_sample(pattern: str, text: str) -> None:
    """Remember (schema pattern, value, Python verdict on UTF-16 units) for the node leg."""
    if len(PATTERN_SAMPLES) >= MAX_PATTERN_SAMPLES or (pattern, text) in PATTERN_SAMPLES:
        return
    try:
        PATTERN_SAMPLES[(pattern, text)] = utf16_search(pattern, text)
    except re.error:
        pass


class Opened:
    def __init__(self, name: str, text: str, schema: Schema, pm: PyModel, sdk: pysdk.Sdk,
                 rng: random.Random) -> None:
        self.name = name
        self.text = text
        self.schema = schema
        self.pm = pm
        self.sdk = sdk
        self.rec = Recogniser(pm)
        self.gen = DirectedGenerator(pm, rng, self.rec)
        self.rng = rng

    def close(self) -> None:
        self.sdk.close()


def normalise_message(text: str) -> str:
    text = re.sub(r"'[^']*'|\"[^\"]*\"", "Q", text)
    text = re.sub(r"[0-9]+", "N", text)
    return text[:90]


def open_schema(chk: harness.Check, name: str, text: str) -> Optional[Schema]:
    """Run the real jsonschema target; count-and-skip models it rejects or crashes on."""
    schema_text, outcome, exc, stderr = run_jsonschema(text)
    chk.count("models_tried")
    if outcome == "crashed":
        chk.count("models_jsonschema_crashed_skipped")
        chk.hist("jsonschema_crash_sites_left_to_C02", harness.crash_signature(exc)[:120])
        return None
    if outcome != "ok":
        chk.count("models_jsonschema_rejected_skipped")
        head = (stderr.strip().splitlines() or [""])[-1]
        chk.hist("jsonschema_rejections", normalise_message(head))
        return None
    chk.count("schemas_generated")
    try:
        return Schema(schema_text)
    except json.JSONDecodeError as err:
        chk.violation("schema-invalid/not-json", {"model": name, "text": text, "error": str(err),
                                                  "schema": schema_text[:3000]})
        return None


def memoise_model(pm: PyModel) -> None:
    """
    Cache the derived-structure queries of *this* PyModel object (they are pure; the
    instance generator asks them hundreds of thousands of times).
    """
    import functools

    for method in ("ancestors", "all_props", "all_invariants", "primitive_of", "is_class",
                   "is_enum", "is_constrained_primitive", "concrete_descendants",
                   "descendants", "with_model_type"):
        bound = getattr(pm, method)
        setattr(pm, method, functools.lru_cache(maxsize=None)(bound))


def open_sdk(chk: harness.Check, name: str, text: str) -> Optional[Tuple[PyModel, pysdk.Sdk]]:
    """
    As :func:`vf.sdkloop.open_sdk` without the separate front-end run (the jsonschema
    target has just accepted the model).
    """
    try:
        pm = PyModel(text)
    except Exception as err:
        chk.count("reference_executor_failed")
        chk.hist("reference_executor_failure", type(err).__name__)
        return None
    memoise_model(pm)
    try:
        sdk = pysdk.Sdk(text, pm)
    except pysdk.SdkError as err:
        if err.result.exc is not None:
            chk.count("models_python_generator_crashed")
        else:
            chk.count("models_python_generator_rejected")
            head = (err.result.stderr.strip().splitlines() or [""])[-1]
            chk.hist("generator_rejections", normalise_message(head))
        return None
    except Exception as err:
        chk.count("models_sdk_import_failed_skipped")
        chk.hist("sdk_import_failures", type(err).__name__)
        return None
    finally:
        driver._wipe_cache()
    chk.count("models_with_sdk")
    return pm, sdk


def open_model(chk: harness.Check, name: str, text: str, rng: random.Random,
               schema: Optional[Schema] = None) -> Optional[Opened]:
    if schema is None:
        schema = open_schema(chk, name, text)
        if schema is None:
            return None
    opened = open_sdk(chk, name, text)
    if opened is None:
        return None
    pm, sdk = opened
    return Opened(name, text, schema, pm, sdk, rng)


def documents(chk: harness.Check, op: Opened, n_instances: int, deadline: float) -> Iterator[Tuple[Inst, Any, str]]:
    """Yield (satisfying instance, SDK document, definition name of its class)."""
    import time

    classes = op.gen.instantiable()
    if not classes:
        chk.count("models_without_instantiable_class")
        return
    failures: Dict[str, int] = {}
    for i in range(n_instances):
        if time.time() > deadline:
            chk.count("instances_skipped_for_budget", n_instances - i)
            return
        cls = classes[i % len(classes)]
        if failures.get(cls, 0) >= 4:
            chk.count("instances_skipped_class_unsatisfiable")
            continue
        chk.count("instances_attempted")
        try:
            inst = op.gen.gen_instance(cls)
        except instances.Unsatisfied:
            chk.count("instances_unsatisfied")
            failures[cls] = failures.get(cls, 0) + 1
            continue
        except RecursionError:
            chk.count("instances_recursion_skipped")
            continue
        if not instances.all_invariants_hold(op.pm, inst):
            chk.count("instances_not_confirmed_satisfying")
            continue
        try:
            doc = serialise(op.sdk, inst)
        except Exception as err:
            chk.count("sdk_serialisation_failed_skipped")
            chk.hist("sdk_serialisation_failures", type(err).__name__)
            continue
        chk.count("satisfying_documents")
        yield inst, doc, definition_name(inst.cls)


def has_astral(text: str) -> bool:
    return any(ord(ch) > 0xFFFF for ch in text)


def pattern_has_any_or_complement(pattern: str) -> bool:
    try:
        import re._parser as sre_parse  # type: ignore
    except ImportError:  # pragma: no cover
        import sre_parse  # type: ignore

    def walk(seq) -> bool:
        for op, arg in seq:
            name = str(op)
            if name in ("ANY", "NOT_LITERAL"):
                return True
            if name == "IN" and any(str(o) == "NEGATE" for o, _ in arg):
                return True
            if name in ("MAX_REPEAT", "MIN_REPEAT") and walk(arg[2]):
                return True
            if name == "SUBPATTERN" and walk(arg[-1]):
                return True
            if name == "BRANCH" and any(walk(b) for b in arg[1]):
                return True
        return False

    try:
        return walk(sre_parse.parse(pattern))
    except Exception:
        return False


KEYWORD_KIND = {"minLength": "len-min", "minItems": "len-min", "maxLength": "len-max",
                "maxItems": "len-max", "pattern": "pattern"}


def classify_rejection(op: Opened, inst: Inst, doc: Any, err: Any) -> Tuple[str, Dict[str, Any]]:
    """Mechanism key + detail for one leaf error on a document that ought to validate."""
    keyword = str(err.validator)
    jpath = tuple(err.absolute_path)
    detail: Dict[str, Any] = {
        "keyword": keyword,
        "keyword_value": harness.jsonable(err.validator_value),
        "document_path": [str(s) for s in jpath],
        "schema_path": [str(s) for s in err.absolute_schema_path][-8:],
        "message": err.message[:300],
    }
    hit: Optional[Visit] = None
    obj: Optional[Visit] = None
    for v in visits(op.pm, inst):
        if v.jpath == jpath:
            if v.kind == "object":
                obj = v
            else:
                hit = v
    prefix = "valid-document-rejected"
    if keyword in KEYWORD_KIND and hit is not None and hit.prop is not None:
        kind = KEYWORD_KIND[keyword]
        value_kind = op.rec.value_kind(hit.t) or "other"
        cls, prop = hit.owner.cls, hit.prop.name
        detail.update({"class": cls, "property": prop, "value_kind": value_kind})
        recs = op.rec.for_value(cls, prop, hit.prop.type, item=(hit.kind == "item"))
        lo, hi, pats = effective(recs)
        active = [
            (r, "conditional-with-guard-set") for r in op.rec.misread_candidates(cls, prop)
            if hit.kind == "value" and hit.owner.props.get(r.guard[1]) is not None
        ]
        if value_kind == "bytes" and keyword in ("minLength", "maxLength"):
            # any recognised byte bound of that kind (the tightest one, or a looser one
            # stated by an ancestor / the constrained primitive) explains the keyword
            if any(r.kind == kind and r.value == err.validator_value for r, _ in recs + active):
                detail["byte_length"] = len(hit.value)
                detail["base64_length"] = b64len(len(hit.value))
                return f"{prefix}/bytes-length-on-base64-text/{keyword}", detail
        if hit.kind == "value":
            for r in op.rec.misread_candidates(cls, prop):
                if r.kind != kind or hit.owner.props.get(r.guard[1]) is not None:
                    continue
                if kind == "pattern":
                    explains = isinstance(hit.value, str) and re.match(r.value[1], hit.value) is None
                else:
                    explains = r.value == err.validator_value
                if explains:
                    detail["invariant"] = r.inv.body_src
                    return f"{prefix}/guard-on-other-property/{r.guard[0]}/{keyword}/{value_kind}", detail
        if kind == "pattern" and isinstance(hit.value, str) and has_astral(hit.value):
            detail["patterns"] = [r.value[1] for r, _ in pats]
            if any(pattern_has_any_or_complement(r.value[1]) for r, _ in pats):
                return f"{prefix}/pattern/astral-character-vs-dot-or-complemented-set", detail
            return f"{prefix}/pattern/astral-character", detail
        source = None
        if kind == "len-min" and lo is not None:
            source = lo
        elif kind == "len-max" and hi is not None:
            source = hi
        if kind == "pattern":
            origin = "+".join(sorted({o for _, o in pats})) or "no-recognised-constraint"
        else:
            origin = source[2] if source is not None else "no-recognised-constraint"
            if source is not None:
                detail["recognised_bound"] = source[0]
        return f"{prefix}/{keyword}/{value_kind}/{origin}", detail
    if keyword == "required":
        missing = re.findall(r"'([^']*)' is a required property", err.message)
        name = missing[0] if missing else "?"
        what = "other"
        if name == "modelType":
            what = "modelType"
        elif obj is not None:
            for _, p in op.pm.all_props(obj.owner.cls):
                if json_prop(p.name) == name:
                    what = "optional-property" if p.type.optional else "required-property-absent-in-sdk-document"
        return f"{prefix}/required/{what}", detail
    if keyword in ("oneOf", "anyOf"):
        what = "several-branches-match" if "each of" in err.message or "more than one" in err.message else "no-branch-matches"
        return f"{prefix}/{keyword}/{what}", detail
    if keyword in ("const", "enum"):
        what = "modelType" if jpath[-1:] == ("modelType",) else "value"
        return f"{prefix}/{keyword}/{what}", detail
    if keyword == "type":
        return f"{prefix}/type/expected-{err.validator_value}", detail
    return f"{prefix}/{keyword}", detail


# ======================================================================= node leg
NODE_SCRIPT = r"""
const fs = require('fs');
const cases = JSON.parse(fs.readFileSync(process.argv[2], 'utf8'));
const out = [];
for (const [pattern, text] of cases) {
  try { out.push(new RegExp(pattern).test(text)); }
  catch (e) { out.push('error: ' + String(e).slice(0, 200)); }
}
process.stdout.write(JSON.stringify(out));
"""


def find_node() -> Optional[str]:
    found = shutil.which("node")
    if found:
        return found
    for candidate in sorted(
        (p for p in [os.path.expanduser("~/.nvm/versions/node")] if os.path.isdir(p)), reverse=True
    ):
        for version in sorted(os.listdir(candidate), reverse=True):
            path = os.path.join(candidate, version, "bin", "node")
            if os.path.exists(path):
                return path
    return None


def node_verdicts(cases: List[Tuple[str, str]], timeout: float = 120.0) -> Optional[List[Any]]:
    """One batched subprocess: ``new RegExp(pattern).test(text)`` without the ``u`` flag."""
    node = find_node()
    if node is None:
        return None
    workdir = env.new_dir("node")
    try:
        (workdir / "cases.json").write_text(json.dumps(cases, ensure_ascii=True), encoding="ascii")
        (workdir / "run.js").write_text(NODE_SCRIPT, encoding="utf-8")
        try:
            proc = subprocess.run(
                [node, str(workdir / "run.js"), str(workdir / "cases.json")],
                stdout=subprocess.PIPE, stderr=subprocess.PIPE, timeout=timeout,
                env=env.child_env(),
            )
        except (subprocess.TimeoutExpired, OSError):
            return None
        if proc.returncode != 0:
            return None
        try:
            return json.loads(proc.stdout.decode("utf-8"))
        except ValueError:
            return None
    finally:
        shutil.rmtree(workdir, ignore_errors=True)
