"""
Shared helper of C13 / C14: the real ``xsd`` target observed through independent XSD
validators.

* :func:`run_xsd` runs the real generator (in-process, with a wall limit because the
  ``greenery`` intersection of several patterns may take arbitrarily long);
* :class:`Validators` loads ``schema.xsd`` with ``xmlschema.XMLSchema`` (XSD 1.0) **and**
  ``xmlschema.XMLSchema11`` and validates documents with both; ``xmllint`` is an optional
  second opinion that never decides a verdict on its own;
* :func:`strict_escape_scan` checks the escapes of every emitted ``xs:pattern`` against
  the escape grammar of the W3C recommendation (XSD 1.0 appendix F / XSD 1.1 appendix G),
  because both ``xmlschema`` and ``libxml2`` are lenient there;
* :class:`Expectations` recomputes, from the meta-model alone (``vf.pyexec.PyModel``, i.e.
  Python's ``ast`` and Python's own evaluation), which length / pattern / list-size
  constraints a class declares *itself* for a property or inherits through a constrained
  primitive -- nothing is read from the XSD;
* :class:`PatternLab` puts one pattern into a one-property meta-model, runs the real
  generator and compares Python ``re`` with the emitted ``xs:pattern`` on sampled strings;
* :func:`map_document` aligns an SDK-written XML document with the abstract instance so
  that structural twins (unknown / misplaced / missing / duplicated element) can be made.

Nothing here edits or re-implements the repository's translation; names of XML elements
come from the repository's own naming functions so that a consistent renaming cannot
raise an alarm.
"""
import ast
import copy
import re
import subprocess
import xml.etree.ElementTree as ET
from typing import Any, Dict, Iterator, List, Optional, Sequence, Tuple
from xml.sax.saxutils import escape as xml_escape

from vf import driver, env, instances, mmgen, pyexec
from vf import regexgen as rg

XMLLINT = "/root/miniconda/bin/xmllint"


# ---------------------------------------------------------------------------
# text classes
# ---------------------------------------------------------------------------
def is_xml_text(text: str) -> bool:
    """Every character is an XML 1.0 ``Char``."""
    for ch in text:
        c = ord(ch)
        if not (
            c in (0x9, 0xA, 0xD)
            or 0x20 <= c <= 0xD7FF
            or 0xE000 <= c <= 0xFFFD
            or 0x10000 <= c <= 0x10FFFF
        ):
            return False
    return True


def has_line_break(text: str) -> bool:
    return any(ch in text for ch in ("\n", "\r", "\x85", "\u2028", "\u2029"))


def judgeable_string(text: str) -> bool:
    """XML characters without line breaks (the domain the statement of C13 names)."""
    return is_xml_text(text) and not has_line_break(text)


def strings_in(value: Any, pm: Any = None) -> List[str]:
    if isinstance(value, instances.Inst):
        return [s for v in value.props.values() for s in strings_in(v, pm)]
    if isinstance(value, list):
        return [s for v in value for s in strings_in(v, pm)]
    if isinstance(value, str):
        return [value]
    if isinstance(value, instances.EnumVal) and pm is not None:
        # the text of an enumeration literal is written into the document as well
        cls = pm.classes.get(value.enum)
        for literal, text in (getattr(cls, "literals", None) or []):
            if literal == value.literal and isinstance(text, str):
                return [text]
    return []


# ---------------------------------------------------------------------------
# running the real generator
# ---------------------------------------------------------------------------
class XsdRun:
    def __init__(self) -> None:
        self.outcome = "ok"  # ok | refused | crash | timeout
        self.xsd: Optional[str] = None
        self.stderr = ""
        self.exc: Optional[BaseException] = None
        self.result: Optional[driver.RunResult] = None

    def cleanup(self) -> None:
        if self.result is not None:
            self.result.cleanup()


def run_xsd(text: str, seconds: float = 20.0,
            snippets: Optional[Dict[str, str]] = None) -> XsdRun:
    run = XsdRun()
    try:
        with rg.time_limit(seconds):
            result = driver.run_inprocess(text, "xsd", snippets=snippets)
    except rg.MatchTimeout:
        run.outcome = "timeout"
        return run
    run.result = result
    run.stderr = result.stderr
    if isinstance(result.exc, rg.MatchTimeout):
        run.outcome = "timeout"
    elif result.exc is not None:
        run.outcome = "crash"
        run.exc = result.exc
    elif result.rc != 0:
        run.outcome = "refused"
    else:
        path = result.output_dir / "schema.xsd"
        try:
            run.xsd = path.read_text(encoding="utf-8")
        except OSError as err:
            run.outcome = "crash"
            run.exc = err
    return run


def refusal_class(stderr: str) -> Tuple[str, str]:
    """
    ``(kind, normalised innermost message)`` of an error report of the xsd target.

    kind ``pattern-translation``: the report says that a pattern the front end had
    accepted could not be translated (the generator's own re-parse or ``greenery``).
    """
    lines = [ln.strip() for ln in stderr.splitlines() if ln.strip()]
    for ln in lines:
        if "greenery failed to parse" in ln:
            return "pattern-translation", "greenery-failed-to-parse"
        if "to xs:simpleType:" in ln:
            return "pattern-translation", rg.norm_text(ln.split("to xs:simpleType:", 1)[1], 8)
    msg = lines[-1] if lines else ""
    for ln in lines:
        if ln.startswith("At line") or ln.startswith("*"):
            msg = ln
    msg = re.sub(r"At line \d+ and column \d+:", "", msg)
    return "other", rg.norm_text(msg, 8)


# ---------------------------------------------------------------------------
# validators
# ---------------------------------------------------------------------------
_NOT_XSD_ESCAPE = re.compile(r"\\(.)", re.DOTALL)
#: XSD 1.0 Part 2 appendix F.1.1 / XSD 1.1 appendix G.4.2.2-5: single-character escapes,
#: multi-character escapes and the heads of category escapes.
_XSD_ESCAPED = set("nrt\\|.?*+(){}-[]^") | set("sSiIcCdDwW") | set("pP")


def strict_escape_scan(xsd_text: str) -> List[Tuple[str, str]]:
    """``(pattern value, escape)`` for each escape the XSD regex grammar does not have."""
    found = []
    try:
        root = ET.fromstring(xsd_text)
    except ET.ParseError:
        return found
    for elem in root.iter("{http://www.w3.org/2001/XMLSchema}pattern"):
        value = elem.attrib.get("value", "")
        for m in _NOT_XSD_ESCAPE.finditer(value):
            if m.group(1) not in _XSD_ESCAPED:
                found.append((value, "\\" + m.group(1)))
                break
    return found


def lazy_quantifier_scan(value: str) -> bool:
    """A quantifier followed by ``?`` outside a character class (no such thing in XSD)."""
    in_set = False
    i = 0
    prev_quant = False
    while i < len(value):
        ch = value[i]
        if ch == "\\":
            i += 2
            prev_quant = False
            continue
        if in_set:
            if ch == "]":
                in_set = False
            i += 1
            prev_quant = False
            continue
        if ch == "[":
            in_set = True
            prev_quant = False
        elif ch in "*+?}":
            if prev_quant and ch == "?":
                return True
            prev_quant = True
        else:
            prev_quant = False
        i += 1
    return False


def pattern_values(xsd_text: str) -> List[str]:
    try:
        root = ET.fromstring(xsd_text)
    except ET.ParseError:
        return []
    return [
        e.attrib.get("value", "")
        for e in root.iter("{http://www.w3.org/2001/XMLSchema}pattern")
    ]


def schema_error_key(err: BaseException, xsd_text: str) -> str:
    """Mechanism of a schema that an XSD processor refuses to build."""
    msg = getattr(err, "message", None) or str(err)
    msg = str(msg).strip().splitlines()[0] if str(msg).strip() else type(err).__name__
    m = re.search(r"not allowed escape sequence '(\\\\?.)", msg)
    if m:
        esc = m.group(1).replace("\\\\", "\\")
        return f"pattern/escape-not-in-xsd-grammar:{esc}"
    if "bad character range" in msg and any(
        has_escaped_range_start(v) for v in pattern_values(xsd_text)
    ):
        # ``[\t-"]``: a range whose start is a single-character escape is an seRange of
        # the XSD grammar, but elementpath compares the letter after the backslash
        # (libxml2 compiles such a range and then mismatches it): not the schema's fault
        return "validator-limitation/range-starts-with-an-escape"
    if "overlap and are in the same" in msg:
        return "content-model/overlapping-elements-in-one-choice-group"
    if "unexpected meta character '?'" in msg and any(
        lazy_quantifier_scan(v) for v in pattern_values(xsd_text)
    ):
        return "pattern/lazy-quantifier"
    if "Unique Particle Attribution" in msg or "UPA" in msg:
        return "content-model/unique-particle-attribution"
    lowered = msg.lower()
    if "pattern" in lowered or "regular expression" in lowered or "regex" in lowered or "character" in lowered:
        return "pattern/" + rg.norm_text(msg, 7)
    return type(err).__name__ + "/" + rg.norm_text(msg, 7)


def reason_kind(reason: Optional[str]) -> str:
    """Mechanism-level class of a validation error of ``xmlschema`` (no values)."""
    text = reason or ""
    if "Unexpected child with tag" in text:
        return "unexpected-child"
    if "is not complete" in text:
        return "content-incomplete"
    if "doesn't match any pattern" in text:
        return "pattern"
    m = re.search(r"length (?:cannot|has to) be (\w+)", text)
    if m:
        return "length-" + m.group(1)
    if "not an instance of" in text or "invalid value" in text or "invalid literal" in text:
        return "lexical-value"
    if "enumeration" in text or "value must be one of" in text:
        return "enumeration"
    if "character data between child elements" in text:
        return "character-data"
    return rg.norm_text(text, 6)


class Validators:
    """XSD 1.0 and XSD 1.1 processors over the same ``schema.xsd`` text."""

    VERSIONS = ("1.0", "1.1")

    def __init__(self, xsd_text: str) -> None:
        import xmlschema

        self.xsd_text = xsd_text
        self.schemas: Dict[str, Any] = {}
        self.errors: Dict[str, BaseException] = {}
        for name, cls in (("1.0", xmlschema.XMLSchema), ("1.1", xmlschema.XMLSchema11)):
            try:
                self.schemas[name] = cls(xsd_text)
            except RecursionError:
                raise
            except Exception as err:  # noqa: any refusal to build is the observation
                self.errors[name] = err

    @property
    def ok(self) -> bool:
        return not self.errors

    def errors_of(self, elem: ET.Element, limit: int = 3) -> Dict[str, List[Tuple[str, str, str]]]:
        """version -> [(reason kind, path, reason text)] (empty dict = valid in both)."""
        out: Dict[str, List[Tuple[str, str, str]]] = {}
        for name, schema in self.schemas.items():
            found = []
            for e in schema.iter_errors(elem):
                found.append((reason_kind(e.reason), str(e.path), str(e.reason)[:300]))
                if len(found) >= limit:
                    break
            if found:
                out[name] = found
        return out

    def valid_in(self, elem: ET.Element) -> Dict[str, bool]:
        return {name: schema.is_valid(elem) for name, schema in self.schemas.items()}


def xmllint_schema(xsd_path: str, docs: Sequence[str], timeout: float = 60.0) -> Optional[Dict[str, Any]]:
    """
    Second opinion of libxml2: ``{"schema_ok": bool, "valid": {doc path: bool}}`` or None
    if ``xmllint`` is unavailable or timed out.
    """
    import os

    if not os.path.exists(XMLLINT):
        return None
    try:
        proc = subprocess.run(
            [XMLLINT, "--noout", "--schema", xsd_path] + list(docs),
            stdout=subprocess.PIPE, stderr=subprocess.PIPE, timeout=timeout,
        )
    except (subprocess.TimeoutExpired, OSError):
        return None
    text = proc.stderr.decode("utf-8", "replace")
    result: Dict[str, Any] = {"schema_ok": "failed to compile" not in text, "valid": {}, "text": text[-1500:]}
    for doc in docs:
        if f"{doc} validates" in text:
            result["valid"][doc] = True
        elif f"{doc} fails to validate" in text:
            result["valid"][doc] = False
    return result


# ---------------------------------------------------------------------------
# names (always through the repository's own functions)
# ---------------------------------------------------------------------------
class Names:
    def __init__(self, namespace: str) -> None:
        from aas_core_codegen import naming
        from aas_core_codegen.common import Identifier

        self._naming = naming
        self._identifier = Identifier
        self.ns = namespace

    def cls(self, name: str) -> str:
        return "{%s}%s" % (self.ns, self._naming.xml_class_name(self._identifier(name)))

    def prop(self, name: str) -> str:
        return "{%s}%s" % (self.ns, self._naming.xml_property(self._identifier(name)))

    def local(self, local: str) -> str:
        return "{%s}%s" % (self.ns, local)


# ---------------------------------------------------------------------------
# expected constraints, recomputed from the meta-model
# ---------------------------------------------------------------------------
class Bound:
    """One recognised invariant: what it says and where it came from."""

    def __init__(self, kind: str, value: Any, form: str, origin: str, inv: Any) -> None:
        self.kind = kind  # "min" | "max" | "pattern"
        self.value = value  # int, or (function name, pattern text)
        self.form = form  # normalised spelling, e.g. "len(P)<K", "guard:call(P)"
        self.origin = origin  # "own-class" | "constrained-primitive"
        self.inv = inv  # pyexec.RefInvariant


class ValueExpect:
    def __init__(self) -> None:
        self.bounds: List[Bound] = []

    def add(self, bounds: Sequence[Bound]) -> None:
        self.bounds.extend(bounds)

    @property
    def empty(self) -> bool:
        return not self.bounds

    def tightest(self, kind: str) -> Optional[Bound]:
        best = None
        for b in self.bounds:
            if b.kind != kind:
                continue
            if best is None or (kind == "min" and b.value > best.value) or (
                kind == "max" and b.value < best.value
            ):
                best = b
        return best

    @property
    def min(self) -> Optional[int]:
        b = self.tightest("min")
        return None if b is None else b.value

    @property
    def max(self) -> Optional[int]:
        b = self.tightest("max")
        return None if b is None else b.value

    @property
    def patterns(self) -> List[Bound]:
        return [b for b in self.bounds if b.kind == "pattern"]

    def admits(self, value: Any, skip: Optional[Bound] = None) -> bool:
        """Python's verdict on the recognised constraints (optionally all but one)."""
        n = len(value)
        for b in self.bounds:
            if b is skip:
                continue
            if b.kind == "min" and n < b.value:
                return False
            if b.kind == "max" and n > b.value:
                return False
            if b.kind == "pattern":
                if not isinstance(value, str) or re.match(b.value[1], value) is None:
                    return False
        return True


def _is_self_attr(node: ast.AST) -> Optional[str]:
    if (
        isinstance(node, ast.Attribute)
        and isinstance(node.value, ast.Name)
        and node.value.id == "self"
    ):
        return node.attr
    return None


def _target_name(node: ast.AST) -> Optional[str]:
    """``self.p`` -> "p"; bare ``self`` -> "" (constrained primitive); else None."""
    if isinstance(node, ast.Name) and node.id == "self":
        return ""
    return _is_self_attr(node)


def _strip_guard(body: ast.AST) -> Tuple[Optional[str], ast.AST]:
    """``not (self.g is not None) or X`` / ``self.g is None or X`` -> (g, X)."""
    if isinstance(body, ast.BoolOp) and isinstance(body.op, ast.Or) and len(body.values) == 2:
        first, second = body.values
        if isinstance(first, ast.UnaryOp) and isinstance(first.op, ast.Not):
            cmp_ = first.operand
            if (
                isinstance(cmp_, ast.Compare)
                and len(cmp_.ops) == 1
                and isinstance(cmp_.ops[0], ast.IsNot)
                and isinstance(cmp_.comparators[0], ast.Constant)
                and cmp_.comparators[0].value is None
            ):
                g = _is_self_attr(cmp_.left)
                if g is not None:
                    return g, second
        if (
            isinstance(first, ast.Compare)
            and len(first.ops) == 1
            and isinstance(first.ops[0], ast.Is)
            and isinstance(first.comparators[0], ast.Constant)
            and first.comparators[0].value is None
        ):
            g = _is_self_attr(first.left)
            if g is not None:
                return g, second
    return None, body


_OPS = {ast.Lt: "<", ast.LtE: "<=", ast.Eq: "==", ast.Gt: ">", ast.GtE: ">="}


def _len_call_target(node: ast.AST) -> Optional[str]:
    if (
        isinstance(node, ast.Call)
        and isinstance(node.func, ast.Name)
        and node.func.id == "len"
        and len(node.args) == 1
        and not node.keywords
    ):
        return _target_name(node.args[0])
    return None


def _int_const(node: ast.AST) -> Optional[int]:
    if isinstance(node, ast.Constant) and type(node.value) is int:
        return node.value
    return None


def recognise(pm: pyexec.PyModel, inv: Any, origin: str) -> Optional[Tuple[str, List[Bound]]]:
    """
    ``(property name or "" for self, bounds)`` if the invariant has one of the forms

    * ``len(T) <op> K`` / ``K <op> len(T)`` with ``<op>`` in ``< <= == > >=``,
    * ``matches_x(T)`` where ``matches_x`` is a pattern verification function,

    with ``T`` = ``self.p`` (or ``self`` in a constrained primitive), optionally guarded by
    ``not (self.p is not None) or ...`` / ``self.p is None or ...`` on the *same* ``p``.
    """
    body = inv.node.body
    guard, core = _strip_guard(body)
    prefix = "guard:" if guard is not None else ""
    bounds: List[Bound] = []
    target: Optional[str] = None
    if isinstance(core, ast.Compare) and len(core.ops) == 1 and type(core.ops[0]) in _OPS:
        op = _OPS[type(core.ops[0])]
        left_t, right_k = _len_call_target(core.left), _int_const(core.comparators[0])
        left_k, right_t = _int_const(core.left), _len_call_target(core.comparators[0])
        if left_t is not None and right_k is not None:
            target, k, form = left_t, right_k, f"len(P){op}K"
        elif left_k is not None and right_t is not None:
            target, k, form = right_t, left_k, f"K{op}len(P)"
            op = {"<": ">", "<=": ">=", "==": "==", ">": "<", ">=": "<="}[op]
        else:
            return None
        form = prefix + form
        if op == "<":
            bounds.append(Bound("max", k - 1, form, origin, inv))
        elif op == "<=":
            bounds.append(Bound("max", k, form, origin, inv))
        elif op == ">":
            bounds.append(Bound("min", k + 1, form, origin, inv))
        elif op == ">=":
            bounds.append(Bound("min", k, form, origin, inv))
        else:
            bounds.append(Bound("min", k, form, origin, inv))
            bounds.append(Bound("max", k, form, origin, inv))
    elif (
        isinstance(core, ast.Call)
        and isinstance(core.func, ast.Name)
        and len(core.args) == 1
        and not core.keywords
    ):
        fn = pm.functions.get(core.func.id)
        if fn is None or fn.pattern is None or not fn.is_verification or fn.implementation_specific:
            return None
        target = _target_name(core.args[0])
        if target is None:
            return None
        bounds.append(Bound("pattern", (fn.name, fn.pattern), prefix + "call(P)", origin, inv))
    else:
        return None
    if guard is not None and guard != target:
        return None  # guard on another property: a conditional constraint, not ours
    return target, bounds


def lengthable(pm: pyexec.PyModel, type_name: str) -> Optional[str]:
    prim = pm.primitive_of(type_name)
    return prim if prim in ("str", "bytearray") else None


class PropExpect:
    """Expected constraints of one property as declared in its *own* class."""

    def __init__(self, decl_cls: str, prop: pyexec.RefProp) -> None:
        self.decl_cls = decl_cls
        self.prop = prop
        self.kind = "other"  # "text" (str/bytes) | "list" | "other"
        self.value = ValueExpect()  # length/pattern of the value or size of the list
        self.item = ValueExpect()  # constraints of list items (constrained primitives)
        self.item_kind = "other"
        #: recognised invariants of the own class guarded by / aimed at another property
        self.conditional_on_other = False


class Expectations:
    def __init__(self, pm: pyexec.PyModel) -> None:
        self.pm = pm
        self.cprim_cache: Dict[str, List[Bound]] = {}
        self.by_prop: Dict[Tuple[str, str], PropExpect] = {}
        #: class -> property (own *or inherited*) -> bounds its own invariants state;
        #: only the instance generator uses the inherited part (descendants' tightenings)
        self.class_bounds: Dict[str, Dict[str, List[Bound]]] = {}
        for cname in pm.order:
            if not pm.is_class(cname):
                continue
            cls = pm.classes[cname]
            own_names = {p.name for p in cls.own_props}
            per_prop: Dict[str, List[Bound]] = {}
            every: Dict[str, List[Bound]] = {}
            self.class_bounds[cname] = every
            cross: set = set()
            for inv in cls.own_invariants:
                guard, core = _strip_guard(inv.node.body)
                got = recognise(pm, inv, "own-class")
                if got is None:
                    if guard is not None:
                        # remember ``guard(q) -> constraint(p)`` with q != p
                        probe = copy.copy(inv)
                        fake = ast.Lambda(args=inv.node.args, body=core)
                        probe.node = fake
                        inner = recognise(pm, probe, "own-class")
                        if inner is not None and inner[0] not in (None, "", guard):
                            cross.add(inner[0])
                    continue
                target, bounds = got
                if target:
                    every.setdefault(target, []).extend(bounds)
                if target and target in own_names:
                    per_prop.setdefault(target, []).extend(bounds)
            for prop in cls.own_props:
                pe = PropExpect(cname, prop)
                pe.conditional_on_other = prop.name in cross
                t = prop.type.strip_optional()
                if t.kind == "list" and t.inner is not None:
                    pe.kind = "list"
                    pe.value.add([b for b in per_prop.get(prop.name, []) if b.kind != "pattern"])
                    it = t.inner
                    if it.kind == "atomic" and lengthable(pm, it.name):
                        pe.item_kind = lengthable(pm, it.name) or "other"
                        pe.item.add(self.cprim_bounds(it.name))
                elif t.kind == "atomic" and lengthable(pm, t.name):
                    pe.kind = "text"
                    pe.item_kind = lengthable(pm, t.name) or "other"
                    own = per_prop.get(prop.name, [])
                    if pe.item_kind != "str":
                        own = [b for b in own if b.kind != "pattern"]
                    pe.value.add(own)
                    pe.value.add(self.cprim_bounds(t.name))
                self.by_prop[(cname, prop.name)] = pe

    def cprim_bounds(self, name: str) -> List[Bound]:
        pm = self.pm
        if name in pyexec.PRIMITIVES or not pm.is_constrained_primitive(name):
            return []
        if name in self.cprim_cache:
            return self.cprim_cache[name]
        prim = pm.primitive_of(name)
        bounds: List[Bound] = []
        for _, inv in pm.all_invariants(name):
            got = recognise(pm, inv, "constrained-primitive")
            if got is None or got[0] != "":
                continue
            for b in got[1]:
                if b.kind == "pattern" and prim != "str":
                    continue
                if b.kind in ("min", "max") and prim not in ("str", "bytearray"):
                    continue
                bounds.append(b)
        self.cprim_cache[name] = bounds
        return bounds

    def has_any_pattern_function(self) -> bool:
        return any(fn.pattern is not None for fn in self.pm.functions.values())


class Site:
    """A value inside an instance together with what its own class expects of it."""

    def __init__(self, owner: instances.Inst, prop: str, index: Optional[int], value: Any,
                 expect: ValueExpect, role: str, kind: str, path: Tuple) -> None:
        self.owner = owner
        self.prop = prop
        self.index = index
        self.value = value
        self.expect = expect
        self.role = role  # "value" | "list" | "item"
        self.kind = kind  # "str" | "bytearray" | "list"
        self.path = path


def sites(pm: pyexec.PyModel, exp: Expectations, inst: instances.Inst, path: Tuple = ()) -> Iterator[Site]:
    """Every constrained value of ``inst`` and of the instances nested in it."""
    for decl, prop in pm.all_props(inst.cls):
        value = inst.props.get(prop.name)
        if value is None:
            continue
        pe = exp.by_prop.get((decl, prop.name))
        t = prop.type.strip_optional()
        here = path + (prop.name,)
        if isinstance(value, instances.Inst):
            yield from sites(pm, exp, value, here)
            continue
        if isinstance(value, list):
            if pe is not None and pe.kind == "list" and not pe.value.empty:
                yield Site(inst, prop.name, None, value, pe.value, "list", "list", here)
            for i, item in enumerate(value):
                if isinstance(item, instances.Inst):
                    yield from sites(pm, exp, item, here + (i,))
                elif pe is not None and pe.kind == "list" and not pe.item.empty and isinstance(item, (str, bytes, bytearray)):
                    yield Site(inst, prop.name, i, item, pe.item, "item", pe.item_kind, here + (i,))
            continue
        if pe is not None and pe.kind == "text" and not pe.value.empty and isinstance(value, (str, bytes, bytearray)):
            yield Site(inst, prop.name, None, value, pe.value, "value", pe.item_kind, here)


def set_at(root: instances.Inst, path: Tuple, new: Any) -> instances.Inst:
    """Deep copy of ``root`` with the value at ``path`` replaced."""
    clone = copy.deepcopy(root)
    node: Any = clone
    for seg in path[:-1]:
        node = node.props[seg] if isinstance(node, instances.Inst) else node[seg]
    last = path[-1]
    if isinstance(node, instances.Inst):
        node.props[last] = new
    else:
        node[last] = new
    return clone


def get_at(root: instances.Inst, path: Tuple) -> Any:
    node: Any = root
    for seg in path:
        node = node.props[seg] if isinstance(node, instances.Inst) else node[seg]
    return node


# ---------------------------------------------------------------------------
# aligning an SDK-written document with the abstract instance
# ---------------------------------------------------------------------------
class ObjectNode:
    """An XML element whose children are the property elements of ``inst``."""

    def __init__(self, elem: ET.Element, inst: instances.Inst) -> None:
        self.elem = elem
        self.inst = inst
        #: (property name, declared type, element) in document order
        self.props: List[Tuple[str, pyexec.TypeRef, ET.Element]] = []


class MappingFailed(Exception):
    pass


def map_document(pm: pyexec.PyModel, names: Names, root: ET.Element, inst: instances.Inst) -> List[ObjectNode]:
    """
    Pair every instance with its element, guided by the meta-model only.

    Raises :class:`MappingFailed` when the document is not laid out as this module
    assumes (then no structural twin is made of it; never a verdict).
    """
    nodes: List[ObjectNode] = []

    def wrapped(declared: str) -> bool:
        return len(pm.concrete_descendants(declared)) > 0

    def map_obj(elem: ET.Element, obj: instances.Inst) -> None:
        node = ObjectNode(elem, obj)
        nodes.append(node)
        children = list(elem)
        k = 0
        for _, prop in pm.all_props(obj.cls):
            value = obj.props.get(prop.name)
            if value is None:
                continue
            if k >= len(children) or children[k].tag != names.prop(prop.name):
                raise MappingFailed(f"expected {prop.name} at position {k} of {obj.cls}")
            child = children[k]
            k += 1
            t = prop.type.strip_optional()
            node.props.append((prop.name, prop.type, child))
            if isinstance(value, instances.Inst):
                if t.kind != "atomic":
                    raise MappingFailed("instance under a non-atomic type")
                if wrapped(t.name):
                    inner = list(child)
                    if len(inner) != 1 or inner[0].tag != names.cls(value.cls):
                        raise MappingFailed("wrapper element expected")
                    map_obj(inner[0], value)
                else:
                    map_obj(child, value)
            elif isinstance(value, list):
                items = list(child)
                if len(items) != len(value):
                    raise MappingFailed("list length")
                for item_elem, item in zip(items, value):
                    if isinstance(item, instances.Inst):
                        if item_elem.tag != names.cls(item.cls):
                            raise MappingFailed("list item tag")
                        map_obj(item_elem, item)
        if k != len(children):
            raise MappingFailed("unconsumed children")

    if root.tag != names.cls(inst.cls):
        raise MappingFailed("root tag")
    map_obj(root, inst)
    return nodes


# ---------------------------------------------------------------------------
# one pattern against its own translation
# ---------------------------------------------------------------------------
PATTERN_MODEL = '''
@verification
def matches_it(text: str) -> bool:
    """Check the text."""
    pattern = f"%s"
    return match(pattern, text) is not None


@invariant(lambda self: matches_it(self.some_text), "Some text must match.")
class Something(DBC):
    some_text: str

    def __init__(self, some_text: str) -> None:
        self.some_text = some_text


__version__ = "V0.1"
__xml_namespace__ = "https://dummy.com/gen"
'''


def pattern_model(pattern: str) -> str:
    return mmgen.IMPORTS + PATTERN_MODEL % mmgen.Generator.fstring_src(pattern)


class PatternCase:
    def __init__(self, pattern: str) -> None:
        self.pattern = pattern
        self.text = pattern_model(pattern)
        self.state = "?"  # accepted-by-front-end? then outcome of the xsd target
        self.run: Optional[XsdRun] = None
        self.validators: Optional[Validators] = None
        self.emitted: Optional[str] = None
        self.py: Optional[Any] = None


class PatternLab:
    """Runs one-pattern meta-models through the real pipeline."""

    def __init__(self) -> None:
        self.names = Names("https://dummy.com/gen")

    def open(self, pattern: str, seconds: float = 20.0) -> PatternCase:
        case = PatternCase(pattern)
        py, why = rg.py_compile(pattern)
        if py is None:
            case.state = "python-rejects"
            return case
        case.py = py
        try:
            reference = pyexec.PyModel(case.text)
        except Exception:  # noqa
            case.state = "reference-executor-failed"
            return case
        if reference.functions["matches_it"].pattern != pattern:
            case.state = "pattern-not-preserved-by-source-escaping"
            return case
        loaded, error, exc = driver.load_inprocess(case.text)
        if exc is not None:
            case.state = "front-end-crashed"
            return case
        if error is not None:
            case.state = "front-end-rejects"
            return case
        case.run = run_xsd(case.text, seconds)
        case.state = case.run.outcome
        if case.run.outcome == "ok":
            values = pattern_values(case.run.xsd or "")
            case.emitted = values[0] if values else None
            case.validators = Validators(case.run.xsd or "")
        return case

    def document(self, string: str) -> ET.Element:
        root = ET.Element(self.names.cls("Something"))
        child = ET.SubElement(root, self.names.prop("some_text"))
        child.text = string
        return root

    def accepts(self, case: PatternCase, string: str) -> Dict[str, bool]:
        assert case.validators is not None
        return case.validators.valid_in(self.document(string))


_XS_TRANSLATE = None


def xsd_facet_regex(value: str, version: str = "1.0") -> Optional[Any]:
    """
    Compile an ``xs:pattern`` value the way ``xmlschema`` does (used for *naming* a
    disagreement by shrinking; the verdict itself always comes from a real validation).
    """
    global _XS_TRANSLATE
    if _XS_TRANSLATE is None:
        from xmlschema.validators import facets as _facets

        _XS_TRANSLATE = (_facets.translate_pattern, _facets.RegexError)
    translate, regex_error = _XS_TRANSLATE
    try:
        return re.compile(
            translate(value, xsd_version=version, back_references=False,
                      lazy_quantifiers=False, anchors=False)
        )
    except (regex_error, re.error, Exception):  # noqa
        return None


def real_translate(pattern: str) -> Optional[str]:
    """The real ``xsd.main._translate_pattern`` (None on error or crash)."""
    from aas_core_codegen.xsd import main as xsd_main

    try:
        translated, error = xsd_main._translate_pattern(pattern)
    except RecursionError:
        raise
    except Exception:  # noqa
        return None
    return translated if error is None else None


_METACHARS = set(".^$*+?()[]{}|\\-")


def mentions_non_xml_character(pattern: str) -> bool:
    """
    Python's own parse of the pattern names a character (literal or range end) that is not
    an XML 1.0 ``Char``: such a pattern cannot be written into any schema document, so a
    refusal of the xsd target is the correct outcome.
    """
    ir = rg.to_ir(pattern)
    if ir is None:
        return False

    def bad(cp: int) -> bool:
        return not is_xml_text(chr(cp)) if not rg.is_surrogate(cp) else True

    def walk(seq: list) -> bool:
        for node in seq:
            tag = node[0]
            if tag == "lit" and bad(node[1]):
                return True
            if tag == "set" and any(bad(lo) or bad(hi) for lo, hi in node[2]):
                return True
            if tag == "alt" and any(walk(alt) for alt in node[1]):
                return True
            if tag == "rep" and walk(node[3]):
                return True
        return False

    return walk(ir)


def cause_of(minimal: str) -> Optional[str]:
    """Name the ``\\xHH`` construct, if any, of a pattern whose translation disagrees."""
    toks = rg.tokens_of(minimal)
    for i, tok in enumerate(toks):
        if tok == "\\\\":
            rest = "".join(toks[i + 1: i + 4])
            if re.match(r"x[0-9a-zA-Z]{2}", rest):
                return "escaped-backslash-before-xHH-undone-before-parsing"
    for tok in toks:
        if len(tok) == 4 and tok.startswith("\\x"):
            if chr(int(tok[2:], 16)) in _METACHARS:
                return "x-escape-of-metacharacter-undone-before-parsing"
    return None


def respellings(pattern: str) -> List[str]:
    """
    The pattern with every ``\\xHH`` of a metacharacter spelt in a way that does not
    depend on the order of un-escaping and parsing: first the same character behind a
    backslash (the same language), then harmless letters (one per occurrence, so that
    no two ranges collide), then one harmless letter for all.
    """
    toks = rg.tokens_of(pattern)

    def respell(choose: Any) -> str:
        respelt = []
        k = 0
        for i, tok in enumerate(toks):
            if len(tok) == 4 and tok.startswith("\\x") and chr(int(tok[2:], 16)) in _METACHARS:
                respelt.append(choose(chr(int(tok[2:], 16)), k))
                k += 1
            elif tok == "x" and i >= 1 and toks[i - 1] == "\\\\":
                respelt.append("y")
            else:
                respelt.append(tok)
        return "".join(respelt)

    out = [respell(lambda ch, k: "\\" + ch)]
    out.append(respell(lambda ch, k: "\u0101\u0111\u0121\u0131\u0141\u0151\u0161\u0171"[k % 8]))
    for letter in ("a", "0", " ", "\u0101", "~"):
        out.append(respell(lambda ch, k, letter=letter: letter))
    return out


def confirmed_cause(pattern: str, fails: Any, passes: Any) -> Optional[str]:
    """
    ``cause_of(pattern)`` if ``fails(pattern)`` holds and ``passes`` holds for the pattern
    with the ``\\xHH`` spellings of metacharacters replaced by a harmless letter.
    """
    cause = cause_of(pattern)
    if cause is None or not fails(pattern):
        return None
    for candidate in respellings(pattern):
        if passes(candidate):
            return cause
    return None


def _facet_of(pattern: str) -> Tuple[Optional[str], Optional[Any]]:
    translated = real_translate(pattern)
    if translated is None:
        return None, None
    return translated, xsd_facet_regex(translated)


def refusal_points_at_undone_escape(pattern: str, stderr: str) -> Optional[str]:
    """
    The refusal quotes the pattern *after* the un-escaping of ``\\xHH`` and points (``^``)
    at a character that was such an escape of a metacharacter, or within two tokens of it
    (the parser reports some errors after having consumed the construct).
    """
    toks = rg.tokens_of(pattern)
    undone: List[str] = []
    origin: List[int] = []
    for ti, tok in enumerate(toks):
        if len(tok) == 4 and tok.startswith("\\x"):
            try:
                undone.append(chr(int(tok[2:], 16)))
                origin.append(ti)
                continue
            except ValueError:
                pass
        for ch in tok:
            undone.append(ch)
            origin.append(ti)
    text = "".join(undone)

    def is_undone_metachar(ti: int) -> bool:
        if not 0 <= ti < len(toks):
            return False
        tok = toks[ti]
        if len(tok) != 4 or not tok.startswith("\\x"):
            return False
        try:
            return chr(int(tok[2:], 16)) in _METACHARS
        except ValueError:
            return False

    lines = stderr.split("\n")
    for i in range(len(lines) - 1):
        quoted, pointer = lines[i], lines[i + 1]
        if quoted.strip() != text.strip() or pointer.strip() != "^":
            continue
        column = pointer.index("^") - (len(quoted) - len(quoted.lstrip(" ")))
        if not 0 <= column < len(origin):
            continue
        ti = origin[column]
        if any(is_undone_metachar(t) for t in range(ti - 2, ti + 3)):
            return "x-escape-of-metacharacter-undone-before-parsing"
    return None


def confirmed_cause_of_refusal(pattern: str) -> Optional[str]:
    """The real translation fails only because of the ``\\xHH`` spellings."""
    return confirmed_cause(
        pattern,
        lambda p: real_translate(p) is None,
        lambda p: real_translate(p) is not None,
    )


def confirmed_cause_of_invalid_facet(pattern: str) -> Optional[str]:
    """The real translation is not an XSD regular expression only because of them."""

    def fails(p: str) -> bool:
        translated, facet = _facet_of(p)
        return translated is not None and facet is None

    def passes(p: str) -> bool:
        translated, facet = _facet_of(p)
        return translated is not None and facet is not None and not strict_escapes(translated)

    return confirmed_cause(pattern, fails, passes)


def strict_escapes(value: str) -> List[str]:
    return ["\\" + m.group(1) for m in _NOT_XSD_ESCAPE.finditer(value) if m.group(1) not in _XSD_ESCAPED]


def _disagrees(candidate: str, direction: str, rng: Any) -> bool:
    """Python and the *real* translation (through xmlschema's regex) disagree on a sample."""
    py, _ = rg.py_compile(candidate)
    if py is None:
        return False
    translated = real_translate(candidate)
    if translated is None:
        return False
    facet = xsd_facet_regex(translated)
    if facet is None:
        return False
    try:
        with rg.time_limit(1.0):
            for s in rg.sample_strings(candidate, rng, 30, allow_surrogates=False):
                if not judgeable_string(s):
                    continue
                member = py.match(s) is not None
                accepted = facet.match(s) is not None
                if direction == "rejects-member" and member and not accepted:
                    return True
                if direction == "accepts-non-member" and not member and accepted:
                    return True
    except rg.MatchTimeout:
        return False
    return False


def explain_disagreement(pattern: str, direction: str, rng: Any, may_shrink: bool,
                         seconds: float = 6.0) -> Tuple[str, Optional[str]]:
    """
    ``(mechanism, minimal pattern or None)`` of a disagreement that a real validation
    has already witnessed (``direction``: "rejects-member" | "accepts-non-member").

    The name is the confirmed cause (the disagreement vanishes when the ``\\xHH``
    spellings of metacharacters are re-spelt), else the skeleton of a 1-minimal pattern
    (anchors kept) that still disagrees, else ``not-minimised``.
    """
    if not (pattern.startswith("^") and pattern.endswith("$")):
        return "not-anchored", None

    def fails(candidate: str) -> bool:
        return _disagrees(candidate, direction, rng)

    # the sampling is random: give the full pattern a few chances
    reproduced = any(fails(pattern) for _ in range(3))
    if reproduced:
        def passes(candidate: str) -> bool:
            translated, facet = _facet_of(candidate)
            if translated is None or facet is None:
                return False
            return not any(fails(candidate) for _ in range(3))

        cause = confirmed_cause(pattern, lambda p: True, passes)
        if cause is not None:
            return cause, None
    if not may_shrink or not reproduced:
        return (cause_of(pattern) or "not-minimised"), None
    minimal = "^" + rg.shrink_pattern(pattern[1:-1], lambda body: fails("^" + body + "$"), seconds=seconds) + "$"
    return (cause_of(minimal) or "minimal:" + rg.skeleton(minimal)), minimal


# ---------------------------------------------------------------------------
# workload: meta-models whose schema-relevant invariants are jointly satisfiable
# ---------------------------------------------------------------------------
Window = Tuple[Optional[int], Optional[int]]


def _intersect(a: Window, b: Window) -> Optional[Window]:
    lo = a[0] if b[0] is None else b[0] if a[0] is None else max(a[0], b[0])
    hi = a[1] if b[1] is None else b[1] if a[1] is None else min(a[1], b[1])
    if lo is not None and hi is not None and lo > hi:
        return None
    return lo, hi


class SchemaGenerator(mmgen.Generator):
    """
    ``mmgen.Generator`` with the random invariants replaced by *coherent* ones.

    The structure (class DAG, constrained-primitive chains, property types, constructors,
    pattern functions) is the shared generator's.  Afterwards every constrained
    primitive and every property of a lengthable or list type gets a length window that
    lies inside the windows it inherits (constrained-primitive parents, ancestors of the
    class, both arms of a diamond), spelt with all comparison operators in both operand
    orders and with the two guard spellings on optional properties; pattern calls are
    kept only if Python finds a string inside the window that matches all of them.  So
    most models are satisfiable, and none hits the known ``min == 0`` / crossing-bounds
    crashes of ``infer_for_schema`` (those belong to C02 / C15).
    """

    def __init__(self, rng: Any, profile: Optional[mmgen.Profile] = None) -> None:
        super().__init__(rng, profile)
        self.cp_window: Dict[str, Window] = {}
        self.cp_patterns: Dict[str, List[mmgen.GFunc]] = {}
        self.prop_window: Dict[Tuple[str, str], Window] = {}
        self.prop_patterns: Dict[Tuple[str, str], List[mmgen.GFunc]] = {}

    # -- windows ---------------------------------------------------------------
    def sub_window(self, outer: Window, small: bool = False) -> Window:
        rng = self.rng
        olo, ohi = outer
        base_lo = olo if olo is not None else 0
        span = rng.choice([0, 1, 2, 3]) if small else rng.choice([0, 1, 2, 4, 7, 12, 19])
        top = ohi if ohi is not None else base_lo + span + 1
        lo = rng.randint(base_lo, max(base_lo, min(top, base_lo + (2 if small else 3))))
        lo = max(lo, 1)
        if lo > top:
            lo = top
        hi = rng.randint(lo, max(lo, min(top, lo + span)))
        mode = rng.choice(["both", "both", "both", "min", "max", "exact"])
        if mode == "min":
            return lo, ohi
        if mode == "max":
            return olo, hi
        if mode == "exact":
            return lo, lo
        return lo, hi

    def satisfiable(self, fns: Sequence[mmgen.GFunc], window: Window) -> bool:
        if not fns:
            return True
        sampler = instances.RegexSampler(self.rng, max_repeat=6)
        lo = window[0] or 0
        hi = window[1]
        hits = 0
        for k in range(80):
            s = sampler.sample(fns[k % len(fns)].pattern or "")
            if s is None or not judgeable_string(s):
                continue
            if len(s) < lo or (hi is not None and len(s) > hi):
                continue
            if all(re.match(f.pattern or "", s) is not None for f in fns):
                hits += 1
                if hits >= 2:
                    return True
        return False

    def len_invariants(self, e: str, new: Window, old: Window, guard: bool) -> List[str]:
        """Source of invariants that narrow ``old`` to ``new`` (random spellings)."""
        rng = self.rng
        out: List[str] = []
        lo, hi = new
        changed_lo = lo is not None and lo != old[0]
        changed_hi = hi is not None and hi != old[1]
        if changed_lo and changed_hi and lo == hi and rng.random() < 0.7:
            out.append(rng.choice([f"len({e}) == {lo}", f"{lo} == len({e})"]))
            self.m.feature("len-eq")
        else:
            if changed_lo:
                out.append(rng.choice([
                    f"len({e}) >= {lo}", f"len({e}) > {lo - 1}", f"{lo} <= len({e})", f"{lo - 1} < len({e})",
                ]))
            if changed_hi:
                out.append(rng.choice([
                    f"len({e}) <= {hi}", f"len({e}) < {hi + 1}", f"{hi} >= len({e})", f"{hi + 1} > len({e})",
                ]))
        if guard:
            wrapped = []
            for body in out:
                if rng.random() < 0.5:
                    wrapped.append(f"not ({e} is not None) or ({body})")
                    self.m.feature("guard-implication")
                else:
                    wrapped.append(f"({e} is None) or ({body})")
                    self.m.feature("guard-is-none-or")
            out = wrapped
        return out

    # -- constrained primitives -----------------------------------------------------
    def gen_cprims(self) -> None:
        super().gen_cprims()
        rng = self.rng
        pats = [f for f in self.m.funcs if f.kind == "pattern"]
        for cp in self.m.cprims:
            cp.invariants = []
            if cp.prim not in ("str", "bytearray"):
                continue
            inherited: Window = self.cp_window.get(cp.base, (None, None))
            inherited_patterns = list(self.cp_patterns.get(cp.base, []))
            for extra in list(cp.extra_bases):
                # several parents: everything they demand holds at once
                both = _intersect(inherited, self.cp_window.get(extra, (None, None)))
                union = inherited_patterns + [
                    f for f in self.cp_patterns.get(extra, []) if f not in inherited_patterns
                ]
                if both is None or not self.satisfiable(union, both):
                    cp.extra_bases.remove(extra)  # contradicting parents: a plain chain
                    continue
                inherited, inherited_patterns = both, union
                self.m.feature("cprim-several-parents-kept")
            window = inherited
            if rng.random() < 0.7:
                window = self.sub_window(inherited)
                for body in self.len_invariants("self", window, inherited, guard=False):
                    cp.invariants.append((body, self.description()))
                    self.m.feature("cprim-length")
            patterns = list(inherited_patterns)
            if cp.prim == "str" and pats and rng.random() < (0.5 if not patterns else 0.12):
                fn = rng.choice(pats)
                if fn not in patterns and self.satisfiable(patterns + [fn], window):
                    patterns.append(fn)
                    cp.invariants.append((f"{fn.name}(self)", self.description()))
                    self.m.feature("cprim-pattern" if len(patterns) == 1 else "cprim-second-pattern")
            self.cp_window[cp.name] = window
            self.cp_patterns[cp.name] = patterns

    # -- classes ------------------------------------------------------------------------
    def gen_class_invariants(self) -> None:
        super().gen_class_invariants()
        rng = self.rng
        pats = [f for f in self.m.funcs if f.kind == "pattern"]
        cprim_by_name = {c.name: c for c in self.m.cprims}
        for cls in self.m.classes:  # generated parents-first
            cls.invariants = []
            for prop in cls.all_props:
                own = any(p is prop for p in cls.props)
                t = prop.type
                optional = t.kind == "optional"
                inner = t.inner if optional else t
                e = f"self.{prop.name}"
                # what is already in force for this property in this class
                inherited: Optional[Window] = (None, None)
                inherited_patterns: List[mmgen.GFunc] = []
                for base in cls.bases:
                    w = self.prop_window.get((base, prop.name))
                    if w is not None and inherited is not None:
                        inherited = _intersect(inherited, w)
                    for fn in self.prop_patterns.get((base, prop.name), []):
                        if fn not in inherited_patterns:
                            inherited_patterns.append(fn)
                if inherited is None:
                    # the arms of a diamond contradict each other: leave it alone
                    self.prop_window[(cls.name, prop.name)] = (None, None)
                    self.m.feature("diamond-arms-disjoint")
                    continue
                window: Window = inherited
                patterns = list(inherited_patterns)
                if inner.kind == "list":
                    if rng.random() < (0.55 if own else 0.2):
                        window = self.sub_window(inherited, small=True)
                        for body in self.len_invariants(e, window, inherited, guard=optional):
                            cls.invariants.append((body, self.description()))
                            self.m.feature("list-size" if own else "list-size-tightened-by-descendant")
                else:
                    prim = None
                    outer: Window = (None, None)
                    cp_patterns: List[mmgen.GFunc] = []
                    if inner.kind == "prim":
                        prim = inner.name
                    elif inner.kind == "cprim":
                        prim = cprim_by_name[inner.name].prim
                        outer = self.cp_window.get(inner.name, (None, None))
                        cp_patterns = self.cp_patterns.get(inner.name, [])
                    if prim not in ("str", "bytearray"):
                        continue
                    start = _intersect(inherited, outer)
                    if start is None:
                        continue
                    if rng.random() < (0.6 if own else 0.25):
                        window = self.sub_window(start)
                        for body in self.len_invariants(e, window, start, guard=optional):
                            cls.invariants.append((body, self.description()))
                            self.m.feature("length-own" if own else "length-tightened-by-descendant")
                    else:
                        window = start
                    if prim == "str" and pats and rng.random() < (0.45 if own else 0.12):
                        fn = rng.choice(pats)
                        already = patterns + [f for f in cp_patterns if f not in patterns]
                        if fn not in already and (not already or rng.random() < 0.25) and self.satisfiable(already + [fn], window):
                            patterns.append(fn)
                            body = f"{fn.name}({e})"
                            if optional:
                                body = rng.choice([f"not ({e} is not None) or {body}", f"({e} is None) or {body}"])
                            cls.invariants.append((body, self.description()))
                            self.m.feature(
                                ("pattern-own" if own else "pattern-added-by-descendant")
                                + ("-second" if already else "")
                            )
                self.prop_window[(cls.name, prop.name)] = window
                self.prop_patterns[(cls.name, prop.name)] = patterns
            rng.shuffle(cls.invariants)


def generate_schema_model(rng: Any, profile: mmgen.Profile) -> mmgen.Model:
    return SchemaGenerator(rng, profile).generate()


# ---------------------------------------------------------------------------
# workload: instances aimed at the recognised constraints (Python stays the arbiter)
# ---------------------------------------------------------------------------
_EMPTY = ValueExpect()


class DirectedGenerator(instances.SatisfyingGenerator):
    """
    ``SatisfyingGenerator`` whose *proposals* aim at the recognised constraints.

    A value is proposed inside the length window / pattern languages that the classes of
    the instance (ancestors and the class itself) and the constrained primitives state in
    recognised forms; whether an instance satisfies *all* invariants is still decided by
    evaluating the meta-model's lambdas (and re-checked by the caller), so the direction
    only changes the yield.
    """

    def __init__(self, pm: pyexec.PyModel, rng: Any, exp: "Expectations", **kwargs: Any) -> None:
        super().__init__(pm, rng, **kwargs)
        self.exp = exp
        self._combined: Dict[Tuple[str, str], Tuple[ValueExpect, ValueExpect]] = {}
        self.big_sampler = instances.RegexSampler(rng, max_repeat=7)

    def combined(self, cls: str, decl: str, prop: str) -> Tuple[ValueExpect, ValueExpect]:
        key = (cls, prop)
        if key not in self._combined:
            value, item = ValueExpect(), ValueExpect()
            pe = self.exp.by_prop.get((decl, prop))
            if pe is not None:
                value.add(pe.value.bounds)
                item.add(pe.item.bounds)
                for other in self.pm.ancestors(cls) + [cls]:
                    if other == decl:
                        continue
                    extra = self.exp.class_bounds.get(other, {}).get(prop, [])
                    if pe.kind == "list" or pe.item_kind != "str":
                        extra = [b for b in extra if b.kind != "pattern"]
                    value.add(extra)
            self._combined[key] = (value, item)
        return self._combined[key]

    def text_for(self, prim: str, ve: ValueExpect) -> Any:
        rng = self.rng
        lo = max(ve.min or 0, 0)
        hi = ve.max
        if hi is not None and lo > hi:
            raise instances.Unsatisfied("empty window")
        if prim == "bytearray":
            n = rng.randint(lo, hi if hi is not None else lo + rng.choice([0, 1, 3, 8]))
            return bytes(rng.randrange(256) for _ in range(n))
        patterns = [b.value[1] for b in ve.patterns]
        if patterns:
            for k in range(60):
                sampler = self.big_sampler if k % 2 else self.sampler
                s = sampler.sample(patterns[k % len(patterns)])
                if s is not None and judgeable_string(s) and ve.admits(s):
                    return s
            raise instances.Unsatisfied("pattern and window")
        for _ in range(20):
            s = self.gen_str()
            if ve.admits(s):
                return s
        top = hi if hi is not None else lo + rng.choice([0, 1, 2, 5, 9])
        n = rng.randint(lo, top)
        alphabet = rng.choice(["abc", "xyzXYZ", "0123456789", "a b", "abcxyz019_-", "é\U0001F600z"])
        return "".join(rng.choice(alphabet) for _ in range(n))

    def directed_value(self, t: pyexec.TypeRef, depth: int, ve: ValueExpect, ie: ValueExpect) -> Any:
        rng = self.rng
        pm = self.pm
        if t.kind == "optional":
            if rng.random() < 0.3 or not self._can_build(t.inner, depth):
                return None
            return self.directed_value(t.inner, depth, ve, ie)
        if t.kind == "list":
            lo = max(ve.min or 0, 0)
            hi = ve.max
            if hi is not None and lo > hi:
                raise instances.Unsatisfied("empty list window")
            if not self._can_build(t.inner, depth):
                if lo > 0:
                    raise instances.Unsatisfied("list needs items that cannot be built")
                return []
            cap = 5 if depth < self.max_depth else 2
            top = hi if hi is not None else lo + rng.choice([0, 1, 2, 3])
            n = rng.randint(lo, max(lo, min(top, max(cap, lo))))
            return [self.directed_value(t.inner, depth, ie, _EMPTY) for _ in range(n)]
        if t.kind == "atomic":
            prim = lengthable(pm, t.name)
            if prim is not None:
                if t.name in pyexec.PRIMITIVES:
                    return self.text_for(prim, ve) if not ve.empty else self.gen_prim(prim)
                invs = pm.all_invariants(t.name)
                for _ in range(self.tries_value):
                    value = self.text_for(prim, ve) if not ve.empty else self.gen_prim(prim)
                    if self._holds(invs, value):
                        return value
                    self.stats["retries"] += 1
                raise instances.Unsatisfied(f"constrained primitive {t.name}")
        return super().gen_value(t, depth)

    def gen_value(self, t: pyexec.TypeRef, depth: int) -> Any:
        # values outside a property context (never reached for properties of classes)
        return super().gen_value(t, depth)

    def gen_instance(self, cls: str, depth: int = 0) -> instances.Inst:
        pm = self.pm
        invs = pm.all_invariants(cls)
        if depth == 0:
            self._work = 0
        tries = (self.tries_instance if depth == 0 else 6) if invs else 2
        last: Optional[Exception] = None
        for _ in range(tries):
            self._work += 1
            if self._work > self.work_budget:
                self.stats["unsatisfied"] += 1
                raise instances.Unsatisfied(f"work budget exhausted at class {cls}")
            try:
                props: Dict[str, Any] = {}
                for decl, prop in pm.all_props(cls):
                    ve, ie = self.combined(cls, decl, prop.name)
                    props[prop.name] = self.directed_value(prop.type, depth, ve, ie)
                inst = instances.Inst(cls, props)
            except instances.Unsatisfied as err:
                last = err
                self.stats["retries"] += 1
                continue
            if not invs or self._holds(invs, instances.to_shadow(pm, inst)):
                self.stats["instances"] += 1
                return inst
            self.stats["retries"] += 1
        self.stats["unsatisfied"] += 1
        raise instances.Unsatisfied(f"class {cls}: {last}")


# ---------------------------------------------------------------------------
# process set-up shared by the two checks
# ---------------------------------------------------------------------------
def warm_up() -> None:
    """
    Import everything the workers need *before* they are forked (importing the
    icontract-decorated generator costs seconds per process) and push one tiny model
    through the whole pipeline so that lazily imported modules are loaded as well.
    """
    import gc

    import greenery  # noqa: F401
    import xmlschema  # noqa: F401

    from vf import pysdk

    text = pattern_model("^[a-z]+$")
    run = run_xsd(text, seconds=120.0)
    try:
        if run.xsd is not None:
            validators = Validators(run.xsd)
            lab = PatternLab()
            validators.valid_in(lab.document("abc"))
        try:
            sdk = pysdk.Sdk(text, pyexec.PyModel(text))
            sdk.xmlization.to_str(sdk.build(instances.Inst("Something", {"some_text": "abc"})))
            sdk.close()
        except Exception:  # noqa: the checks themselves report what matters
            pass
    finally:
        run.cleanup()
    gc.collect()
    gc.freeze()


# ---------------------------------------------------------------------------
# known limits of the validators (so that they are never blamed on the schema)
# ---------------------------------------------------------------------------
def has_escaped_range_start(value: str) -> bool:
    r"""
    ``[\\-a]``, ``[\t-"]``: a range that *starts* with a single-character escape.

    The XSD grammar allows it (``seRange ::= charOrEsc '-' charOrEsc``), but elementpath
    (xmlschema) and libxml2 both misread such a range (measured: ``[\\-a]`` rejects ``^``,
    ``[\t-"]`` is refused or mismatched), so verdicts on such facets are not used.
    """
    i = 0
    in_set = False
    while i < len(value):
        ch = value[i]
        if not in_set:
            if ch == "\\":
                i += 2
                continue
            if ch == "[":
                in_set = True
                i += 1
                if value[i: i + 1] == "^":
                    i += 1
                continue
            i += 1
            continue
        if ch == "]":
            in_set = False
            i += 1
            continue
        if ch == "\\":
            if value[i + 2: i + 3] == "-" and value[i + 3: i + 4] not in ("]", ""):
                return True
            i += 2
            continue
        i += 1
    return False


def xmllint_verdict(xsd_text: str, document: str) -> Optional[bool]:
    """libxml2's verdict on one document (None: unavailable / schema refused)."""
    directory = env.new_dir("lint")
    try:
        xsd_path = directory / "schema.xsd"
        doc_path = directory / "doc.xml"
        xsd_path.write_text(xsd_text, encoding="utf-8")
        doc_path.write_text(document, encoding="utf-8")
        got = xmllint_schema(str(xsd_path), [str(doc_path)], timeout=30.0)
        if got is None or not got["schema_ok"]:
            return None
        return got["valid"].get(str(doc_path))
    finally:
        import shutil

        shutil.rmtree(directory, ignore_errors=True)


class Pace:
    """
    Soft / hard deadlines of one stage of a worker.

    A stage stops at its soft deadline only if the worker has already contributed its
    share of the minimum observation counts; otherwise it goes on until the counts are
    reached or the hard deadline passes (a loaded machine must not turn the check
    inconclusive while there is still something cheap to observe).
    """

    def __init__(self, chk: Any, soft: float, hard: float, targets: Dict[str, int]) -> None:
        self.chk = chk
        self.soft = soft
        self.hard = hard
        self.targets = targets

    def over(self) -> bool:
        elapsed = self.chk.elapsed()
        if elapsed > self.hard:
            return True
        if elapsed > self.soft:
            return all(self.chk.counters.get(c, 0) >= n for c, n in self.targets.items())
        return False


def share(minimum: int, n_shards: int) -> int:
    """What one of ``n_shards`` workers should reach so that the sum is comfortable."""
    return -(-minimum * 3 // (2 * n_shards))
