"""
File-system monitors shared by C23 and C24 (no source edits).

* reader for the per-process JSONL logs written by ``native/audit/sitecustomize.py``
  in CLI subprocesses, directory snapshots and path classification (C23, C24 stress);
* :class:`Instrument`: in-process interception of every file-system step below a
  root directory (C24 workers): audit hook (``open``, ``os.rename``, ``os.remove``,
  ``os.mkdir`` ... whatever API performs them), ``os.stat`` wrappers (so that
  ``Path.exists()`` is a step), ``pickle.dump`` / ``pickle.load`` wrappers (a dump is
  written in several chunks, the consumed / produced bytes are recorded by sha256)
  and ``sys.monitoring`` for the ``close`` of files written below the root.
"""
import hashlib
import io
import json
import os
import pathlib
import pickle
import re
import sys
from typing import Any, Callable, Dict, Iterable, List, Optional

from vf import env

AUDIT_DIR = env.VERIF / "native" / "audit"

MUTATIONS = {
    "os.rename",
    "os.remove",
    "os.mkdir",
    "os.rmdir",
    "os.truncate",
    "os.link",
    "os.symlink",
    "os.chmod",
    "os.chown",
    "os.utime",
    "os.mkfifo",
    "os.mknod",
    "shutil.rmtree",
    "shutil.move",
    "tempfile.mkstemp",
    "tempfile.mkdtemp",
}
LISTINGS = {"os.listdir", "os.scandir"}


def sha256(data) -> str:
    if isinstance(data, str):
        data = data.encode("utf-8", "surrogatepass")
    return hashlib.sha256(data).hexdigest()


def audit_env(log_dir: pathlib.Path, **extra: str) -> Dict[str, str]:
    """Environment that makes a CLI subprocess log its file-system events."""
    result = {
        "PYTHONPATH": f"{AUDIT_DIR}:{env.REPO}:{env.VERIF}",
        "VF_AUDIT_DIR": str(log_dir),
        "PYTHONDONTWRITEBYTECODE": "1",
    }
    result.update(extra)
    return result


def read_events(log_dir: pathlib.Path) -> List[Dict[str, Any]]:
    """Read all events of all processes that logged into ``log_dir``."""
    events: List[Dict[str, Any]] = []
    for path in sorted(log_dir.glob("*.jsonl")):
        pid = path.stem
        for line in path.read_text().splitlines():
            try:
                event = json.loads(line)
            except ValueError:
                continue
            event["pid"] = pid
            events.append(event)
    return events


def is_under(path: Any, root: Any) -> bool:
    if not isinstance(path, str):
        return False
    root = str(root).rstrip("/")
    return path == root or path.startswith(root + "/")


def event_paths(event: Dict[str, Any]) -> List[str]:
    return [p for p in (event.get("path"), event.get("dst")) if isinstance(p, str)]


def is_write(event: Dict[str, Any]) -> bool:
    if event["ev"] == "open":
        return bool(event.get("w"))
    return event["ev"] in MUTATIONS


def snapshot(root: pathlib.Path, exclude: Iterable[pathlib.Path] = ()) -> Dict[str, str]:
    """Map relative path -> ``dir`` | sha256 for everything below ``root``."""
    result: Dict[str, str] = {}
    excluded = [str(e) for e in exclude]
    if not root.exists():
        return result
    for dirpath, dirnames, filenames in os.walk(root):
        dirnames[:] = [
            d
            for d in sorted(dirnames)
            if not any(is_under(os.path.join(dirpath, d), e) for e in excluded)
        ]
        for d in dirnames:
            result[os.path.relpath(os.path.join(dirpath, d), root)] = "dir"
        for f in sorted(filenames):
            full = os.path.join(dirpath, f)
            if any(is_under(full, e) for e in excluded):
                continue
            try:
                with open(full, "rb") as fid:
                    result[os.path.relpath(full, root)] = sha256(fid.read())
            except OSError:
                result[os.path.relpath(full, root)] = "unreadable"
    return result


def snapshot_diff(before: Dict[str, str], after: Dict[str, str]) -> Dict[str, str]:
    """Map relative path -> ``created`` | ``removed`` | ``changed``."""
    result: Dict[str, str] = {}
    for key, value in after.items():
        if key not in before:
            result[key] = "created"
        elif before[key] != value:
            result[key] = "changed"
    for key in before:
        if key not in after:
            result[key] = "removed"
    return result


_HEX = re.compile(r"[0-9a-f]{64}")
_UUID = re.compile(r"[0-9a-f]{8}-[0-9a-f]{4}-[0-9a-f]{4}-[0-9a-f]{4}-[0-9a-f]{12}")


def path_kind(rel: str) -> str:
    """Abstract a path below the temp dir: hashes and uuids are replaced."""
    rel = _UUID.sub("<uuid>", rel)
    rel = _HEX.sub("<sha>", rel)
    rel = re.sub(r"aas-core-codegen-[^/]+", "aas-core-codegen-<v>", rel)
    return rel


# ---------------------------------------------------------------------------
# in-process instrumentation (C24 workers; the process is thrown away afterwards)
# ---------------------------------------------------------------------------

_ONE_PATH = MUTATIONS | LISTINGS
_TWO_PATHS = {"os.rename", "os.link", "os.symlink", "shutil.move"}


class Instrument:
    """
    Report every file-system step below ``root`` to ``on_point`` *before* it happens.

    ``on_point(point)`` may block (scheduler), raise (fault injection: the step
    fails with that exception) or ``os._exit`` (crash).  Everything is recorded in
    ``self.events``.
    """

    def __init__(
        self,
        root: str,
        on_point: Callable[[Dict[str, Any]], None],
        chunks: int = 2,
    ) -> None:
        self.root = os.path.abspath(root).rstrip("/")
        self.on_point = on_point
        self.chunks = max(1, chunks)
        self.active = False
        self.events: List[Dict[str, Any]] = []
        self._busy = False
        self._real_dumps = pickle.dumps
        self._real_loads = pickle.loads

    def begin(self, root: str, chunks: int) -> None:
        """Start observing a new task (persistent workers run many tasks)."""
        self.root = os.path.abspath(root).rstrip("/")
        self.chunks = max(1, chunks)
        self.events = []
        self._busy = False
        self.active = True

    # -- helpers ----------------------------------------------------------
    def _rel(self, path: Any) -> Optional[str]:
        if isinstance(path, int) or path is None:
            return None
        try:
            path = os.fspath(path)
            if isinstance(path, bytes):
                path = os.fsdecode(path)
            path = os.path.abspath(path)
        except Exception:
            return None
        if path == self.root:
            return "."
        if path.startswith(self.root + "/"):
            return path[len(self.root) + 1 :]
        return None

    def _point(self, point: Dict[str, Any]) -> None:
        if not self.active or self._busy:
            return
        self._busy = True
        try:
            point["k"] = len(self.events)
            self.events.append(point)
            self.on_point(point)
        finally:
            self._busy = False

    def record(self, record: Dict[str, Any]) -> None:
        record["k"] = len(self.events)
        self.events.append(record)

    # -- monitors -----------------------------------------------------------
    def _audit(self, event: str, args: tuple) -> None:
        if not self.active or self._busy:
            return
        if event == "open":
            rel = self._rel(args[0]) if args else None
            if rel is None:
                return
            flags = args[2] if len(args) > 2 and isinstance(args[2], int) else 0
            write = bool(
                flags
                & (os.O_WRONLY | os.O_RDWR | os.O_CREAT | os.O_TRUNC | os.O_APPEND)
            )
            self._point({"op": "open", "path": rel, "w": write})
        elif event in _TWO_PATHS:
            src = self._rel(args[0]) if args else None
            dst = self._rel(args[1]) if len(args) > 1 else None
            if src is None and dst is None:
                return
            self._point({"op": event, "path": src, "dst": dst})
        elif event in _ONE_PATH:
            path = args[0] if args else None
            if path is None and event in LISTINGS:
                path = "."
            rel = self._rel(path)
            if rel is None:
                return
            self._point({"op": event, "path": rel})

    def _wrap_stat(self, name: str) -> None:
        real = getattr(os, name)
        inst = self

        def wrapper(path, *args, **kwargs):  # type: ignore
            if inst.active and not inst._busy and not kwargs.get("dir_fd"):
                rel = inst._rel(path)
                if rel is not None:
                    inst._point({"op": "stat", "path": rel})
            return real(path, *args, **kwargs)

        wrapper.__name__ = name
        setattr(os, name, wrapper)

    def _file_rel(self, file: Any) -> Optional[str]:
        name = getattr(file, "name", None)
        return self._rel(name) if isinstance(name, (str, bytes)) else None

    def _dump(self, obj: Any, file: Any, *args: Any, **kwargs: Any) -> None:
        data = self._real_dumps(obj, *args, **kwargs)
        rel = self._file_rel(file)
        text = getattr(getattr(obj, "atok", None), "text", None)
        self.record(
            {
                "op": "dump.data",
                "sha": sha256(data),
                "len": len(data),
                "text_sha": sha256(text) if isinstance(text, str) else None,
                "path": rel,
            }
        )
        # The last piece is short: it stays in the buffer of the file object until
        # the file is flushed or closed, like the tail of a real ``pickle.dump``.
        tail = min(1000, len(data) // 2)
        head = len(data) - tail
        n_head = max(1, self.chunks - 1)
        size = max(1, -(-head // n_head))
        pieces = [data[c : min(c + size, head)] for c in range(0, head, size)]
        pieces.append(data[head:])
        for i, piece in enumerate(pieces):
            self._point({"op": "dump.chunk", "i": i, "n": len(pieces), "path": rel})
            file.write(piece)

    def _load(self, file: Any, *args: Any, **kwargs: Any) -> Any:
        rel = self._file_rel(file)
        self._point({"op": "load.read", "path": rel})
        data = file.read()
        record = {
            "op": "load.data",
            "sha": sha256(data),
            "len": len(data),
            "path": rel,
            "error": None,
        }
        try:
            result = self._real_loads(data, *args, **kwargs)
        except BaseException as err:
            record["error"] = type(err).__name__
            self.record(record)
            raise
        text = getattr(getattr(result, "atok", None), "text", None)
        record["text_sha"] = sha256(text) if isinstance(text, str) else None
        self.record(record)
        return result

    def _on_call(self, code: Any, offset: int, callable_: Any, arg0: Any) -> Any:
        name = getattr(callable_, "__name__", None)
        if name not in ("close", "__exit__"):
            return sys.monitoring.DISABLE
        if not self.active or self._busy:
            return None
        target = getattr(callable_, "__self__", None)
        if not isinstance(target, io.IOBase):
            return None
        try:
            if target.closed or not target.writable():
                return None
        except Exception:
            return None
        rel = self._file_rel(target)
        if rel is not None:
            self._point({"op": "close", "path": rel})
        return None

    # -- installation -----------------------------------------------------
    def install(self) -> None:
        sys.addaudithook(self._audit)
        for name in ("stat", "lstat", "access"):
            self._wrap_stat(name)
        # NOTE: the repo calls ``pickle.dump`` / ``pickle.load`` through the module
        # attribute.  (Re-binding every module-level alias would touch all modules,
        # which is very slow in a forked child on this machine: copy-on-write.)
        pickle.dump = self._dump  # type: ignore
        pickle.load = self._load  # type: ignore
        try:
            mon = sys.monitoring
            tool = 4
            mon.use_tool_id(tool, "vf-fsmon")
            mon.register_callback(tool, mon.events.CALL, self._on_call)
            mon.set_events(tool, mon.events.CALL)
        except Exception as err:  # noqa
            self.record({"op": "note", "text": f"no sys.monitoring: {err!r}"})
