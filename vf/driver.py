"""E9: run the generator in-process or as a real CLI subprocess, with snippets."""
import ast
import contextlib
import hashlib
import io
import os
import pathlib
import shutil
import subprocess
import sys
from typing import Dict, List, Mapping, Optional, Tuple

from vf import env

TARGETS = ["cpp", "csharp", "golang", "java", "jsonschema", "python", "typescript", "xsd"]

DEFAULT_NAMESPACE = "https://dummy.com"


class Scan:
    """Light-weight, ``ast``-only scan of a meta-model (enough to write snippets)."""

    def __init__(self, text: str) -> None:
        self.ok = False
        self.xml_namespace = DEFAULT_NAMESPACE
        self.concrete_classes: List[str] = []
        self.all_classes: List[str] = []
        self.impl_specific_classes: List[str] = []
        self.impl_specific_methods: List[Tuple[str, str]] = []
        self.impl_specific_functions: List[str] = []
        self.enums: List[str] = []
        try:
            tree = ast.parse(text)
        except (SyntaxError, ValueError, RecursionError, MemoryError):
            return
        self.ok = True
        primitives = {"bool", "int", "float", "str", "bytearray"}
        bases_of: Dict[str, List[str]] = {}
        for node in tree.body:
            if isinstance(node, ast.ClassDef):
                bases_of[node.name] = [
                    b.id for b in node.bases if isinstance(b, ast.Name)
                ]

        def is_constrained(name: str, seen=()) -> bool:
            if name in primitives:
                return True
            if name in seen:
                return False
            return any(
                is_constrained(b, seen + (name,)) for b in bases_of.get(name, [])
            )

        for node in tree.body:
            if isinstance(node, ast.Assign):
                for target in node.targets:
                    if (
                        isinstance(target, ast.Name)
                        and target.id == "__xml_namespace__"
                        and isinstance(node.value, ast.Constant)
                        and isinstance(node.value.value, str)
                    ):
                        self.xml_namespace = node.value.value
            elif isinstance(node, ast.ClassDef):
                decos = [_deco_name(d) for d in node.decorator_list]
                if "Enum" in bases_of.get(node.name, []):
                    self.enums.append(node.name)
                    continue
                if is_constrained(node.name):
                    continue
                self.all_classes.append(node.name)
                if "implementation_specific" in decos:
                    self.impl_specific_classes.append(node.name)
                if "abstract" not in decos:
                    self.concrete_classes.append(node.name)
                for item in node.body:
                    if isinstance(item, ast.FunctionDef):
                        idecos = [_deco_name(d) for d in item.decorator_list]
                        if "implementation_specific" in idecos:
                            self.impl_specific_methods.append((node.name, item.name))
            elif isinstance(node, ast.FunctionDef):
                decos = [_deco_name(d) for d in node.decorator_list]
                if "implementation_specific" in decos:
                    self.impl_specific_functions.append(node.name)


def _deco_name(node: ast.AST) -> str:
    if isinstance(node, ast.Call):
        node = node.func
    if isinstance(node, ast.Name):
        return node.id
    if isinstance(node, ast.Attribute):
        return node.attr
    return ""


def _ident_ok(name: str) -> bool:
    import re

    return re.fullmatch(r"[a-zA-Z_][a-zA-Z_0-9]*", name) is not None


def base_snippets(text: str, target: str, scan: Optional[Scan] = None) -> Dict[str, str]:
    """Return the snippets every run of ``target`` needs for the model ``text``."""
    if scan is None:
        scan = Scan(text)
    ns = scan.xml_namespace
    result: Dict[str, str] = {}
    if target == "cpp":
        result["namespace.txt"] = "dummy"
        for fn in scan.impl_specific_functions:
            if _ident_ok(fn):
                result[f"verification/{fn}.hpp"] = f"// declaration of {fn}"
                result[f"verification/{fn}.cpp"] = f"// definition of {fn}"
        for cls, method in scan.impl_specific_methods:
            if _ident_ok(cls) and _ident_ok(method):
                result[f"types/{cls}/{method}.body.cpp"] = "// body"
    elif target in ("csharp", "smoke"):
        result["namespace.txt"] = "dummy"
        for fn in scan.impl_specific_functions:
            if _ident_ok(fn):
                result[f"Verification/{fn}.cs"] = f"// {fn}"
        for cls, method in scan.impl_specific_methods:
            if _ident_ok(cls) and _ident_ok(method):
                result[f"Types/{cls}/{method}.cs"] = "// method"
    elif target == "golang":
        result["repo_url.txt"] = "github.com/dummy-works/dummy"
        for fn in scan.impl_specific_functions:
            if _ident_ok(fn):
                result[f"Verification/{fn}.go"] = f"// {fn}"
        for cls, method in scan.impl_specific_methods:
            if _ident_ok(cls) and _ident_ok(method):
                result[f"Types/{cls}/{method}.go"] = "// method"
    elif target == "java":
        result["package.txt"] = "dummy.pkg"
        for fn in scan.impl_specific_functions:
            if _ident_ok(fn):
                result[f"Verification/{fn}.java"] = f"// {fn}"
        for cls, method in scan.impl_specific_methods:
            if _ident_ok(cls) and _ident_ok(method):
                result[f"Types/{cls}/{method}.java"] = "// method"
    elif target == "jsonschema":
        result["schema_base.json"] = (
            '{\n  "$schema": "https://json-schema.org/draft/2019-09/schema",\n'
            '  "title": "DummyForTest",\n  "type": "object"\n}'
        )
    elif target == "python":
        result["qualified_module_name.txt"] = "dummy"
        for fn in scan.impl_specific_functions:
            if _ident_ok(fn):
                result[f"Verification/{fn}.py"] = (
                    f"def {fn}(*args, **kwargs) -> bool:\n    return True"
                )
        for cls, method in scan.impl_specific_methods:
            if _ident_ok(cls) and _ident_ok(method):
                result[f"Types/{cls}/{method}.py"] = (
                    f"def {method}(self, *args, **kwargs):\n    return None"
                )
    elif target == "typescript":
        result["package_documentation.txt"] = "Provide dummy SDK."
        result["package_identifier.txt"] = "@dummy-works/dummy"
        for fn in scan.impl_specific_functions:
            if _ident_ok(fn):
                result[f"Verification/{fn}.ts"] = f"// {fn}"
        for cls, method in scan.impl_specific_methods:
            if _ident_ok(cls) and _ident_ok(method):
                result[f"Types/{cls}/{method}.ts"] = "// method"
    elif target == "xsd":
        elements = []
        try:
            from aas_core_codegen import naming as _naming
            from aas_core_codegen.xsd import naming as _xsd_naming
            from aas_core_codegen.common import Identifier

            for cls in scan.concrete_classes:
                if not _ident_ok(cls):
                    continue
                try:
                    elements.append(
                        f'    <xs:element name="{_naming.xml_class_name(Identifier(cls))}" '
                        f'type="{_xsd_naming.type_name(Identifier(cls))}" />'
                    )
                except Exception:
                    pass
        except Exception:
            pass
        from xml.sax.saxutils import quoteattr

        result["root_element.xml"] = (
            '<xs:schema\n        xmlns:xs="http://www.w3.org/2001/XMLSchema"\n'
            f"        xmlns={quoteattr(ns)}\n"
            '        elementFormDefault="qualified"\n'
            f"        targetNamespace={quoteattr(ns)}\n>\n"
            + "\n".join(elements)
            + "\n</xs:schema>"
        )
    return result


def write_snippets(directory: pathlib.Path, snippets: Mapping[str, str]) -> None:
    directory.mkdir(parents=True, exist_ok=True)
    for key, value in snippets.items():
        path = directory / key
        path.parent.mkdir(parents=True, exist_ok=True)
        path.write_text(value, encoding="utf-8")


class RunResult:
    def __init__(
        self,
        rc: Optional[int],
        exc: Optional[BaseException],
        stdout: str,
        stderr: str,
        output_dir: pathlib.Path,
        workdir: pathlib.Path,
    ) -> None:
        self.rc = rc
        self.exc = exc
        self.stdout = stdout
        self.stderr = stderr
        self.output_dir = output_dir
        self.workdir = workdir

    def cleanup(self) -> None:
        shutil.rmtree(self.workdir, ignore_errors=True)


def prepare(
    text: str,
    target: str,
    snippets: Optional[Mapping[str, str]] = None,
    extra_snippets: Optional[Mapping[str, str]] = None,
    workdir: Optional[pathlib.Path] = None,
) -> Tuple[pathlib.Path, pathlib.Path, pathlib.Path, pathlib.Path]:
    if workdir is None:
        workdir = env.new_dir("run")
    model_path = workdir / "meta_model.py"
    if isinstance(text, bytes):
        model_path.write_bytes(text)
    else:
        model_path.write_text(text, encoding="utf-8", errors="surrogatepass")
    snippets_dir = workdir / "snippets"
    if snippets is None:
        snippets = base_snippets(text if isinstance(text, str) else "", target)
    merged = dict(snippets)
    if extra_snippets:
        merged.update(extra_snippets)
    write_snippets(snippets_dir, merged)
    output_dir = workdir / "output"
    return workdir, model_path, snippets_dir, output_dir


def run_inprocess(
    text: str,
    target: str,
    snippets: Optional[Mapping[str, str]] = None,
    extra_snippets: Optional[Mapping[str, str]] = None,
    cache_model: bool = False,
) -> RunResult:
    """Call the real ``main.execute`` (or ``smoke.main.execute``) in this process."""
    workdir, model_path, snippets_dir, output_dir = prepare(
        text, target, snippets, extra_snippets
    )
    stdout, stderr = io.StringIO(), io.StringIO()
    rc, exc = None, None
    try:
        if target == "smoke":
            from aas_core_codegen.smoke import main as smoke_main

            rc = smoke_main.execute(model_path=model_path, stderr=stderr)
        else:
            from aas_core_codegen import main as cg_main

            params = cg_main.Parameters(
                model_path=model_path,
                target=cg_main.Target(target),
                snippets_dir=snippets_dir,
                output_dir=output_dir,
                cache_model=cache_model,
            )
            rc = cg_main.execute(params, stdout=stdout, stderr=stderr)
    except BaseException as err:  # noqa
        if isinstance(err, (KeyboardInterrupt, SystemExit)):
            raise
        exc = err
    return RunResult(rc, exc, stdout.getvalue(), stderr.getvalue(), output_dir, workdir)


def load_inprocess(text: str):
    """
    Call the real ``run.load_model``.

    Return ``(symbol_table_atok | None, error_text | None, exception | None)``.
    """
    from aas_core_codegen import run as cg_run

    workdir = env.new_dir("load")
    try:
        model_path = workdir / "meta_model.py"
        if isinstance(text, bytes):
            model_path.write_bytes(text)
        else:
            model_path.write_text(text, encoding="utf-8", errors="surrogatepass")
        try:
            result, error = cg_run.load_model(model_path=model_path, cache_model=False)
        except BaseException as err:  # noqa
            if isinstance(err, (KeyboardInterrupt, SystemExit)):
                raise
            return None, None, err
        return result, error, None
    finally:
        shutil.rmtree(workdir, ignore_errors=True)
        # the pinned tree may cache regardless of the flag: wipe the private tmp
        _wipe_cache()


def _wipe_cache() -> None:
    import tempfile

    tmp = pathlib.Path(tempfile.gettempdir())
    for entry in tmp.glob("aas-core-codegen-*"):
        shutil.rmtree(entry, ignore_errors=True)


def run_cli(
    text: str,
    target: str,
    snippets: Optional[Mapping[str, str]] = None,
    extra_snippets: Optional[Mapping[str, str]] = None,
    cache_model: bool = False,
    extra_env: Optional[Mapping[str, str]] = None,
    timeout: float = 600.0,
    workdir: Optional[pathlib.Path] = None,
    output_dir: Optional[pathlib.Path] = None,
    tmpdir: Optional[pathlib.Path] = None,
) -> RunResult:
    """Run ``python -m aas_core_codegen`` as a real subprocess."""
    workdir, model_path, snippets_dir, default_out = prepare(
        text, target, snippets, extra_snippets, workdir
    )
    if output_dir is None:
        output_dir = default_out
    if tmpdir is None:
        tmpdir = workdir / "tmp"
    tmpdir.mkdir(parents=True, exist_ok=True)
    environ = env.child_env(TMPDIR=str(tmpdir))
    if extra_env:
        environ.update(extra_env)
    if target == "smoke":
        cmd = [env.PY, "-m", "aas_core_codegen.smoke.main", "--model_path", str(model_path)]
    else:
        cmd = [
            env.PY,
            "-m",
            "aas_core_codegen",
            "--model_path",
            str(model_path),
            "--snippets_dir",
            str(snippets_dir),
            "--output_dir",
            str(output_dir),
            "--target",
            target,
        ]
        if cache_model:
            cmd.append("--cache_model")
    try:
        proc = subprocess.run(
            cmd,
            cwd=str(workdir),
            env=environ,
            stdout=subprocess.PIPE,
            stderr=subprocess.PIPE,
            timeout=timeout,
        )
        return RunResult(
            proc.returncode,
            None,
            proc.stdout.decode("utf-8", "replace"),
            proc.stderr.decode("utf-8", "replace"),
            output_dir,
            workdir,
        )
    except subprocess.TimeoutExpired as err:
        return RunResult(None, err, "", "", output_dir, workdir)


def tree_digest(root: pathlib.Path) -> Dict[str, str]:
    """Map relative posix path -> sha256 of every regular file under ``root``."""
    result: Dict[str, str] = {}
    if not root.exists():
        return result
    for path in sorted(root.rglob("*")):
        if path.is_file():
            result[path.relative_to(root).as_posix()] = hashlib.sha256(
                path.read_bytes()
            ).hexdigest()
    return result
