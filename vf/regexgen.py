"""
Seeded, grammar-aware regex workload for the checks on the regex front end.

Two halves, both independent of ``aas_core_codegen`` (nothing is imported from it):

* **pattern generator** -- :func:`gen_pattern` / :func:`gen_pieces` write pattern
  *texts* over the subset that ``parse/retree/_parse.py`` understands (literals, the
  escapes it knows, ``\\xHH \\uHHHH \\UHHHHHHHH``, character sets, groups, unions,
  all quantifier spellings, anchors, f-string splices), near-miss spellings of each
  construct, text mutations and hostile token soups;
* **string sampler** -- :func:`sample_strings` turns a Python ``re`` pattern (through
  Python's *own* parser, ``re._parser``) or a retree tree (duck-typed) into strings
  inside the language, their one-edit neighbours and the boundary characters of every
  literal and range (first/last, +-1, surrogate-block boundaries of astral ranges).

Helpers shared by C16/C17/C18/C13/C11: :func:`sre_tree` / :func:`sre_diff` (Python's view
of two patterns and where they first differ -- used only to *name* a disagreement that
was already witnessed by a string), :func:`to_utf16_units`, :func:`pattern_flags`,
:func:`crash_key`.
"""
import contextlib
import random
import re
import signal
import threading
import warnings
from typing import Any, Dict, Iterable, List, Optional, Sequence, Set, Tuple, Union

try:  # Python >= 3.11
    from re import _parser as _sre_parser  # type: ignore
    from re import _constants as _sre_c  # type: ignore
except ImportError:  # pragma: no cover
    import sre_parse as _sre_parser  # type: ignore
    import sre_constants as _sre_c  # type: ignore

MAX_CP = 0x10FFFF
SUR_LO, SUR_HI = 0xD800, 0xDFFF


class Splice:
    """Placeholder of an f-string ``{...}`` piece (``ast.FormattedValue``)."""

    def __init__(self, name: str = "x") -> None:
        self.name = name

    def __repr__(self) -> str:
        return "{" + self.name + "}"


#: what a splice stands for when the *semantics* of a pattern with splices is judged
SPLICE_FRAGMENT = "(xy|z)"

Piece = Union[str, Splice]


def join_pieces(pieces: Sequence[Any], fragment: str = SPLICE_FRAGMENT) -> str:
    """Join f-string pieces into one text; anything that is not ``str`` is a splice."""
    return "".join(p if isinstance(p, str) else fragment for p in pieces)


def is_surrogate(cp: int) -> bool:
    return SUR_LO <= cp <= SUR_HI


def has_surrogate(s: str) -> bool:
    return any(SUR_LO <= ord(c) <= SUR_HI for c in s)


def has_astral(s: str) -> bool:
    return any(ord(c) > 0xFFFF for c in s)


def to_utf16_units(s: str) -> str:
    """``s`` as a string whose characters are its UTF-16 code units (one char each)."""
    raw = s.encode("utf-16-le", "surrogatepass")
    return "".join(
        chr(raw[i] | (raw[i + 1] << 8)) for i in range(0, len(raw), 2)
    )


class MatchTimeout(BaseException):
    """
    A backtracking match ran over its time limit (never a verdict).

    Not an ``Exception``: the repository catches ``Exception`` around third-party calls
    (*e.g.*, ``greenery.parse``) and would turn the alarm into an error report of its own.
    """


@contextlib.contextmanager
def time_limit(seconds: float):
    """
    Abort the body with :class:`MatchTimeout` after ``seconds`` of wall time.

    CPython's ``re`` engine polls for signals while matching, so a catastrophic
    backtracking match is interrupted as well.  Main thread only; elsewhere a no-op.
    """
    if threading.current_thread() is not threading.main_thread() or not hasattr(signal, "setitimer"):
        yield
        return

    def on_alarm(signum, frame):  # type: ignore
        raise MatchTimeout()

    previous = signal.signal(signal.SIGALRM, on_alarm)
    signal.setitimer(signal.ITIMER_REAL, seconds)
    try:
        yield
    finally:
        signal.setitimer(signal.ITIMER_REAL, 0)
        signal.signal(signal.SIGALRM, previous)


def py_compile(pattern: str) -> Tuple[Optional["re.Pattern[str]"], Optional[str]]:
    """Compile with Python ``re``; return ``(compiled, None)`` or ``(None, reason)``."""
    with warnings.catch_warnings():
        warnings.simplefilter("ignore")
        try:
            return re.compile(pattern), None
        except re.error as err:
            msg = getattr(err, "msg", None) or str(err)
            return None, norm_text(re.sub(r"\\\S*", " ", msg))
        except (OverflowError, RecursionError, ValueError) as err:
            return None, type(err).__name__


def norm_text(text: str, words: int = 7) -> str:
    """Mechanism-key-safe digest of a message: its first words, no values."""
    text = re.sub(r"'[^']{0,24}'|\"[^\"]{0,24}\"|``[^`]{0,24}``", " ", text.split("\n")[0])
    toks = [t for t in re.split(r"[^A-Za-z]+", text) if t]
    return "-".join(toks[:words]).lower() or "empty"


def crash_key(exc: BaseException, repo_root: str) -> str:
    """``Class@file:function|head`` of the innermost frame inside the repository."""
    import traceback

    inner = None
    for frame in traceback.extract_tb(exc.__traceback__):
        if frame.filename.startswith(repo_root) and "/aas_core_codegen/" in frame.filename:
            inner = frame
    cls = type(exc).__name__
    if inner is None:
        where = "outside-repo"
    else:
        where = inner.filename.split("/aas_core_codegen/", 1)[1] + ":" + inner.name
    head = ""
    if cls in ("AssertionError", "ViolationError"):
        lines = [ln.strip() for ln in str(exc).splitlines() if ln.strip()]
        lines = [ln for ln in lines if not ln.startswith("File ")]
        if lines:
            head = norm_text(lines[0], 6)
    return f"{cls}@{where}" + (f"|{head}" if head else "")


# ---------------------------------------------------------------------------
# Intermediate representation used by the sampler
#   ("lit", cp) ("any",) ("set", negate, [(lo, hi), ...], [category, ...])
#   ("alt", [seq, ...]) ("rep", lo, hi_or_None, seq) ("nop",)
# ---------------------------------------------------------------------------

_REPEATS = tuple(
    getattr(_sre_c, name)
    for name in ("MAX_REPEAT", "MIN_REPEAT", "POSSESSIVE_REPEAT")
    if hasattr(_sre_c, name)
)


def _sre_parse(pattern: str) -> Any:
    with warnings.catch_warnings():
        warnings.simplefilter("ignore")
        return _sre_parser.parse(pattern)


def _ir_from_sre(sub: Any) -> list:
    out = []
    for op, av in sub:
        if op is _sre_c.LITERAL:
            out.append(("lit", av))
        elif op is _sre_c.NOT_LITERAL:
            out.append(("set", True, [(av, av)], []))
        elif op is _sre_c.ANY:
            out.append(("any",))
        elif op is _sre_c.IN:
            negate, ranges, cats = False, [], []
            for iop, iav in av:
                if iop is _sre_c.NEGATE:
                    negate = True
                elif iop is _sre_c.LITERAL:
                    ranges.append((iav, iav))
                elif iop is _sre_c.RANGE:
                    ranges.append((iav[0], iav[1]))
                elif iop is _sre_c.CATEGORY:
                    cats.append(str(iav))
            out.append(("set", negate, ranges, cats))
        elif op is _sre_c.BRANCH:
            out.append(("alt", [_ir_from_sre(a) for a in av[1]]))
        elif op is _sre_c.SUBPATTERN:
            out.append(("alt", [_ir_from_sre(av[3])]))
        elif op in _REPEATS:
            lo, hi, body = av
            hi_n = None if hi is _sre_c.MAXREPEAT or int(hi) >= int(_sre_c.MAXREPEAT) else int(hi)
            out.append(("rep", int(lo), hi_n, _ir_from_sre(body)))
        elif getattr(_sre_c, "ATOMIC_GROUP", None) is op:
            out.append(("alt", [_ir_from_sre(av)]))
        else:  # AT, GROUPREF, ASSERT, ... : contributes no characters
            out.append(("nop",))
    return out


def _ir_from_retree(node: Any, splice_ir: list) -> list:
    """Duck-typed conversion of a ``retree`` node (class names only)."""
    kind = type(node).__name__
    if kind == "Regex":
        return _ir_from_retree(node.union, splice_ir)
    if kind == "UnionExpr":
        if not node.uniates:
            return []
        return [("alt", [_ir_from_retree(c, splice_ir) for c in node.uniates])]
    if kind == "Concatenation":
        out = []
        for term in node.concatenants:
            out.extend(_ir_from_retree(term, splice_ir))
        return out
    if kind == "Term":
        vkind = type(node.value).__name__
        if vkind == "FormattedValue":
            body = list(splice_ir)
        elif vkind == "Char":
            body = [("lit", ord(node.value.character))]
        else:
            body = _ir_from_retree(node.value, splice_ir)
        q = node.quantifier
        if q is None:
            return body
        return [("rep", q.minimum, q.maximum, body)]
    if kind == "Group":
        return _ir_from_retree(node.union, splice_ir)
    if kind == "CharSet":
        ranges = []
        for r in node.ranges:
            lo = ord(r.start.character)
            hi = ord(r.end.character) if r.end is not None else lo
            ranges.append((lo, hi))
        return [("set", bool(node.complementing), ranges, [])]
    if kind == "Symbol":
        return [("any",)] if node.kind.value == "." else [("nop",)]
    return [("nop",)]


def to_ir(pattern: Any) -> Optional[list]:
    """IR of a Python pattern text or of a retree tree; None if Python rejects the text."""
    if isinstance(pattern, str):
        try:
            return _ir_from_sre(_sre_parse(pattern))
        except (re.error, OverflowError, RecursionError, ValueError):
            return None
    try:
        splice = _ir_from_sre(_sre_parse(SPLICE_FRAGMENT))
        return _ir_from_retree(pattern, splice)
    except (AttributeError, TypeError, ValueError):
        return None


_CATEGORY_POOL = {
    "CATEGORY_DIGIT": "0599",
    "CATEGORY_NOT_DIGIT": "a- ",
    "CATEGORY_SPACE": " \t\n",
    "CATEGORY_NOT_SPACE": "a1-",
    "CATEGORY_WORD": "a_9Z",
    "CATEGORY_NOT_WORD": " -.",
}

GENERAL_POOL = [
    0x61, 0x7A, 0x41, 0x30, 0x39, 0x20, 0x2D, 0x5F, 0x2E, 0x09, 0x0A, 0x00, 0x7F,
    0xE9, 0xFF, 0x100, 0x2028, 0xD7FF, 0xE000, 0xFFFD, 0xFFFF,
    0x10000, 0x103FF, 0x10400, 0x1F600, 0xFFFFF, 0x10FC00, 0x10FFFF,
]

SPECIAL_STRINGS = [
    "", "a", "\n", " ", "a\n", "\U0001F600", "\uffff", "\U00010000", "\U0010FFFF",
    "\ud7ff", "\ue000", "a\U0001F600b", "\U0001F600\U0001F600", "0", "-", "^", "$",
]


def surrogate_block_boundaries(lo: int, hi: int, rng: Optional[random.Random] = None) -> List[int]:
    """Code points in [lo-1, hi+1] sitting on a UTF-16 surrogate boundary."""
    out: List[int] = []
    if hi < 0x10000:
        return out
    first_block = (max(lo, 0x10000) - 0x10000) // 0x400
    last_block = (hi - 0x10000) // 0x400
    blocks = list(range(first_block, last_block + 1))
    if len(blocks) > 5:
        mid = blocks[2:-2]
        picked = blocks[:2] + blocks[-2:]
        if rng is not None and mid:
            picked += [rng.choice(mid), rng.choice(mid)]
        else:
            picked.append(mid[len(mid) // 2])
        blocks = sorted(set(picked))
    for b in blocks:
        start = 0x10000 + b * 0x400
        for cp in (start - 1, start, start + 0x3FF, start + 0x400):
            if lo - 1 <= cp <= hi + 1 and 0 <= cp <= MAX_CP:
                out.append(cp)
    return out


def boundary_code_points(ir: list, rng: Optional[random.Random] = None) -> List[int]:
    """First/last/+-1 of every literal and range in ``ir`` (plus surrogate boundaries)."""
    found: List[int] = []

    def walk(seq: list) -> None:
        for node in seq:
            tag = node[0]
            if tag == "lit":
                found.extend((node[1] - 1, node[1], node[1] + 1))
            elif tag == "set":
                for lo, hi in node[2]:
                    found.extend((lo - 1, lo, hi, hi + 1))
                    if hi - lo > 1:
                        found.append((lo + hi) // 2)
                    found.extend(surrogate_block_boundaries(lo, hi, rng))
                    if lo <= SUR_LO and hi >= SUR_HI:
                        found.extend((SUR_LO - 1, SUR_HI + 1))
            elif tag == "alt":
                for alt in node[1]:
                    walk(alt)
            elif tag == "rep":
                walk(node[3])

    walk(ir)
    seen: Set[int] = set()
    out = []
    for cp in found:
        if 0 <= cp <= MAX_CP and cp not in seen:
            seen.add(cp)
            out.append(cp)
    return out


def _in_set(cp: int, ranges: list, cats: list) -> bool:
    if any(lo <= cp <= hi for lo, hi in ranges):
        return True
    for cat in cats:
        pool = _CATEGORY_POOL.get(cat)
        if pool is not None and chr(cp) in pool:
            return True
    return False


def _gen_from_ir(ir: list, rng: random.Random, alphabet: List[int], depth: int = 0) -> str:
    out = []
    for node in ir:
        tag = node[0]
        if tag == "lit":
            out.append(chr(node[1]))
        elif tag == "any":
            cp = rng.choice(alphabet) if alphabet and rng.random() < 0.7 else rng.choice(GENERAL_POOL)
            out.append("b" if cp == 0x0A else chr(cp))
        elif tag == "set":
            _, negate, ranges, cats = node
            if not negate:
                choices = len(ranges) + len(cats)
                if choices == 0:
                    continue
                k = rng.randrange(choices)
                if k < len(ranges):
                    lo, hi = ranges[k]
                    r = rng.random()
                    if r < 0.3:
                        cp = lo
                    elif r < 0.6:
                        cp = hi
                    elif r < 0.75 and hi > 0xFFFF:
                        cands = [
                            c for c in surrogate_block_boundaries(lo, hi, rng) if lo <= c <= hi
                        ]
                        cp = rng.choice(cands) if cands else rng.randint(lo, hi)
                    else:
                        cp = rng.randint(lo, hi)
                    out.append(chr(cp))
                else:
                    pool = _CATEGORY_POOL.get(cats[k - len(ranges)], "a")
                    out.append(rng.choice(pool))
            else:
                cands = [
                    cp
                    for cp in (alphabet + GENERAL_POOL)
                    if not _in_set(cp, ranges, cats)
                ]
                if cands:
                    out.append(chr(rng.choice(cands)))
        elif tag == "alt":
            if node[1]:
                out.append(_gen_from_ir(rng.choice(node[1]), rng, alphabet, depth + 1))
        elif tag == "rep":
            _, lo, hi, body = node
            cap = 3 if depth < 2 else 1
            top = lo + cap if hi is None else min(hi, lo + cap)
            r = rng.random()
            if r < 0.35:
                n = lo
            elif r < 0.6:
                n = top
            else:
                n = rng.randint(lo, top)
            n = min(n, 40)
            for _ in range(n):
                out.append(_gen_from_ir(body, rng, alphabet, depth + 1))
    return "".join(out)


def one_edit_neighbours(s: str, rng: random.Random, alphabet: List[int], k: int) -> List[str]:
    """Up to ``k`` strings at edit distance one from ``s``."""
    out = []
    pool = [chr(c) for c in alphabet] or ["a"]
    pool_extra = pool + ["\n", "a", "0", " ", "\U0001F600", "\uffff"]
    for _ in range(k):
        op = rng.randrange(6)
        if not s:
            out.append(rng.choice(pool_extra))
            continue
        i = rng.randrange(len(s))
        if op == 0:
            out.append(s[:i] + s[i + 1:])
        elif op == 1:
            j = rng.randrange(len(s) + 1)
            out.append(s[:j] + rng.choice(pool_extra) + s[j:])
        elif op == 2:
            # neighbour of the replaced character first: the range boundary +-1
            cp = ord(s[i]) + rng.choice((-1, 1))
            ch = chr(cp) if 0 <= cp <= MAX_CP and rng.random() < 0.5 else rng.choice(pool_extra)
            out.append(s[:i] + ch + s[i + 1:])
        elif op == 3:
            out.append(s[:i] + s[i] + s[i:])
        elif op == 4:
            out.append(s + rng.choice(pool_extra))
        else:
            out.append(rng.choice(pool_extra) + s)
    return out


def sample_strings(
    pattern: Any,
    rng: random.Random,
    n: int = 40,
    allow_surrogates: bool = True,
    max_len: int = 48,
) -> List[str]:
    """
    Strings to tell the language of ``pattern`` from its neighbours.

    ``pattern`` is a Python ``re`` pattern text, a retree tree, or a list/tuple of those
    (strings are then drawn from *every* language).  The result mixes members of the
    language(s), one-edit neighbours of those members, every boundary character of the
    literals and ranges (alone and planted into members) and a few fixed specials.
    """
    patterns = list(pattern) if isinstance(pattern, (list, tuple)) else [pattern]
    irs = [ir for ir in (to_ir(p) for p in patterns) if ir is not None]
    risk = max([backtracking_risk(ir) for ir in irs] or [0])
    if risk:
        max_len = min(max_len, 12 if risk == 1 else 8)
    alphabet: List[int] = []
    for ir in irs:
        for cp in boundary_code_points(ir, rng):
            if cp not in alphabet:
                alphabet.append(cp)
    if not irs:
        for p in patterns:
            if isinstance(p, str):
                alphabet.extend(ord(c) for c in p[:30])
    if not allow_surrogates:
        alphabet = [cp for cp in alphabet if not is_surrogate(cp)]
    if len(alphabet) > 80:
        head = alphabet[:40]
        alphabet = head + rng.sample(alphabet[40:], 40)

    out: List[str] = []
    seen: Set[str] = set()

    def add(s: str) -> None:
        if len(s) > max_len or s in seen:
            return
        if not allow_surrogates and has_surrogate(s):
            return
        seen.add(s)
        out.append(s)

    members: List[str] = []
    n_members = max(4, (n * 2) // 5)
    if irs:
        attempts = 0
        while len(members) < n_members and attempts < n_members * 3:
            attempts += 1
            s = _gen_from_ir(irs[attempts % len(irs)], rng, alphabet)
            if len(s) <= max_len:
                members.append(s)
    for s in members:
        add(s)
    # boundary characters: alone, and planted into a member
    for cp in alphabet[: max(6, n // 3)]:
        add(chr(cp))
        if members and rng.random() < 0.6:
            m = rng.choice(members)
            if m:
                i = rng.randrange(len(m))
                add(m[:i] + chr(cp) + m[i + 1:])
    base = members or [""]
    budget = max(4, n - len(out) - 4)
    for s in one_edit_neighbours_of_many(base, rng, alphabet, budget):
        add(s)
    for s in rng.sample(SPECIAL_STRINGS, 5):
        add(s)
    add("")
    if len(out) > n:
        keep = out[: n_members]
        rest = out[n_members:]
        rng.shuffle(rest)
        out = keep + rest[: n - len(keep)]
    return out


def one_edit_neighbours_of_many(
    members: List[str], rng: random.Random, alphabet: List[int], k: int
) -> List[str]:
    out = []
    for _ in range(k):
        out.extend(one_edit_neighbours(rng.choice(members), rng, alphabet, 1))
    return out


# ---------------------------------------------------------------------------
# Python's own view of a pattern: normalised parse tree, first difference, flags
# ---------------------------------------------------------------------------


def _norm_sre(sub: Any) -> tuple:
    out = []
    for op, av in sub:
        name = getattr(op, "name", str(op))
        if op is _sre_c.LITERAL or op is _sre_c.NOT_LITERAL:
            out.append((name, av))
        elif op is _sre_c.ANY:
            out.append((name,))
        elif op is _sre_c.IN:
            items = []
            for iop, iav in av:
                iname = getattr(iop, "name", str(iop))
                if iop is _sre_c.RANGE:
                    items.append((iname, iav[0], iav[1]))
                elif iop is _sre_c.LITERAL:
                    items.append((iname, iav))
                else:
                    items.append((iname, str(iav)))
            out.append((name, tuple(items)))
        elif op in _REPEATS:
            lo, hi, body = av
            hi_n = "INF" if int(hi) >= int(_sre_c.MAXREPEAT) else int(hi)
            out.append((name, int(lo), hi_n, _norm_sre(body)))
        elif op is _sre_c.SUBPATTERN:
            out.append((name, _norm_sre(av[3])))
        elif op is _sre_c.BRANCH:
            out.append((name, tuple(_norm_sre(a) for a in av[1])))
        elif op is _sre_c.AT:
            out.append((name, getattr(av, "name", str(av))))
        else:
            out.append((name, repr(av)))
    return tuple(out)


def sre_tree(pattern: str) -> Optional[tuple]:
    """Python's parse of ``pattern`` as nested tuples (None if Python rejects it)."""
    try:
        return _norm_sre(_sre_parse(pattern))
    except (re.error, OverflowError, RecursionError, ValueError):
        return None


def _as_set(node: tuple, other_name: str) -> tuple:
    """Undo Python's ``[a]`` -> LITERAL / ``[^a]`` -> NOT_LITERAL folding for comparison."""
    if other_name != "IN":
        return node
    if node[0] == "LITERAL":
        return ("IN", (("LITERAL", node[1]),))
    if node[0] == "NOT_LITERAL":
        return ("IN", (("NEGATE", "None"), ("LITERAL", node[1])))
    return node


def sre_diff(a: Optional[tuple], b: Optional[tuple], ctx: str = "") -> Optional[str]:
    """Name the first place where two :func:`sre_tree` results differ (None if equal)."""
    if a is None or b is None:
        return None if a is b else "unparsable"
    for x, y in zip(a, b):
        if x == y:
            continue
        x, y = _as_set(x, y[0]), _as_set(y, x[0])
        if x == y:
            continue
        if x[0] != y[0]:
            return f"{ctx}{x[0]}~{y[0]}"
        name = x[0]
        if name == "IN":
            return sre_diff(x[1], y[1], "IN/") or f"{ctx}IN"
        if name in ("MAX_REPEAT", "MIN_REPEAT", "POSSESSIVE_REPEAT"):
            if (x[1], x[2]) != (y[1], y[2]):
                return f"{ctx}{name}-bounds"
            return sre_diff(x[3], y[3], "") or f"{ctx}{name}"
        if name == "SUBPATTERN":
            return sre_diff(x[1], y[1], "") or "SUBPATTERN"
        if name == "BRANCH":
            if len(x[1]) != len(y[1]):
                return "BRANCH-arity"
            for xa, ya in zip(x[1], y[1]):
                d = sre_diff(xa, ya, "")
                if d is not None:
                    return d
            return "BRANCH"
        if name == "RANGE":
            return f"{ctx}RANGE-bounds"
        return f"{ctx}{name}-value"
    if len(a) != len(b):
        if len(a) > len(b):
            return f"{ctx}{a[len(b)][0]}~END"
        return f"{ctx}END~{b[len(a)][0]}"
    return None


_BRACES_RE = re.compile(r"\{([^{}]*)\}")


def braces_hint(pattern: str) -> str:
    """Why Python may read a ``{...}`` of ``pattern`` as literal text."""
    hints = []
    for m in _BRACES_RE.finditer(pattern):
        body = m.group(1)
        if re.fullmatch(r"[0-9]*,?[0-9]*", body) and body not in ("",):
            continue
        if " " in body or "\t" in body:
            hints.append("blank-in-braces")
        elif any(c.isdigit() and c not in "0123456789" for c in body):
            hints.append("non-ascii-digit-in-braces")
        else:
            hints.append("other-braces")
    for h in ("blank-in-braces", "non-ascii-digit-in-braces", "other-braces"):
        if h in hints:
            return h
    return "no-braces"


def normalise_braces(pattern: str) -> str:
    """``{ 2 , 3 }`` -> ``{2,3}`` and non-ASCII decimal digits -> ASCII inside braces."""
    import unicodedata

    def fix(m: "re.Match[str]") -> str:
        body = m.group(1)
        out = []
        for c in body:
            if c in " \t":
                continue
            if c.isdigit() and c not in "0123456789":
                d = unicodedata.digit(c, None)
                if d is None:
                    return m.group(0)
                out.append(str(d))
            else:
                out.append(c)
        text = "".join(out)
        return "{" + text + "}" if re.fullmatch(r"[0-9]*,?[0-9]*", text) else m.group(0)

    return _BRACES_RE.sub(fix, pattern)


def pattern_flags(pattern: Any) -> Set[str]:
    """Construct kinds seen by Python (or in a retree tree): used for strata and keys."""
    ir = to_ir(pattern)
    flags: Set[str] = set()
    if ir is None:
        return {"unparsable"}

    def walk(seq: list, quantified: bool) -> None:
        for node in seq:
            tag = node[0]
            if tag == "lit":
                cp = node[1]
                if cp > 0xFFFF:
                    flags.add("astral-literal")
                    if quantified and len(seq) == 1:
                        flags.add("quantified-astral-literal")
                elif is_surrogate(cp):
                    flags.add("surrogate-in-pattern")
                else:
                    flags.add("literal")
            elif tag == "any":
                flags.add("dot")
            elif tag == "set":
                _, negate, ranges, cats = node
                flags.add("negated-set" if negate else "set")
                astral = [r for r in ranges if r[1] > 0xFFFF]
                if astral and any(r[1] <= 0xFFFF for r in ranges):
                    flags.add("mixed-bmp-astral-set")
                for lo, hi in ranges:
                    if hi > 0xFFFF:
                        if lo <= 0xFFFF:
                            flags.add("bmp-to-astral-range")
                        elif lo == hi:
                            flags.add("astral-char-in-set")
                        elif (lo - 0x10000) // 0x400 == (hi - 0x10000) // 0x400:
                            flags.add("astral-range-one-high-surrogate")
                        elif (hi - 0x10000) // 0x400 - (lo - 0x10000) // 0x400 == 1:
                            flags.add("astral-range-two-high-surrogates")
                        elif (hi - 0x10000) // 0x400 - (lo - 0x10000) // 0x400 == 2:
                            flags.add("astral-range-three-high-surrogates")
                        else:
                            flags.add("astral-range-many-high-surrogates")
                    if lo <= SUR_HI and hi >= SUR_LO and not (lo < SUR_LO and hi > 0xFFFF):
                        # NOTE: a range from below the surrogate block up into a
                        # supplementary plane covers the surrogate code points only
                        # incidentally; a faithful rewriting leaves them out of the
                        # basic-plane part, so this is not the documented limitation.
                        flags.add("surrogate-in-pattern")
                if quantified and astral:
                    flags.add("quantified-astral-set")
                if cats:
                    flags.add("category")
            elif tag == "alt":
                if len(node[1]) > 1:
                    flags.add("union")
                else:
                    flags.add("group")
                for alt in node[1]:
                    walk(alt, quantified and len(node[1]) == 1)
            elif tag == "rep":
                flags.add("quantifier")
                walk(node[3], True)

    walk(ir, False)
    return flags


ASTRAL_FLAGS = (
    "astral-literal", "quantified-astral-literal", "astral-char-in-set",
    "astral-range-one-high-surrogate", "astral-range-two-high-surrogates",
    "astral-range-three-high-surrogates", "astral-range-many-high-surrogates",
    "mixed-bmp-astral-set", "quantified-astral-set", "bmp-to-astral-range",
)
LIMITATION_FLAGS = ("dot", "negated-set", "surrogate-in-pattern")


def backtracking_risk(ir: Optional[list]) -> int:
    """0 = harmless; 1 = wide repeat over a repeat/union; 2 = wide repeat inside a wide one."""
    if ir is None:
        return 0
    worst = 0

    def wide(node: tuple) -> bool:
        return node[2] is None or node[2] > 3

    def walk(seq: list, under_wide: bool) -> None:
        nonlocal worst
        for node in seq:
            if node[0] == "rep":
                if under_wide:
                    worst = max(worst, 2 if wide(node) else 1)
                walk(node[3], under_wide or wide(node))
            elif node[0] == "alt":
                if under_wide and len(node[1]) > 1:
                    worst = max(worst, 1)
                for alt in node[1]:
                    walk(alt, under_wide)

    walk(ir, False)
    return worst


# ---------------------------------------------------------------------------
# Shrinking a failing pattern (only to *name* a failure that was already witnessed)
# ---------------------------------------------------------------------------

_TOKEN_RE = re.compile(
    r"\\U[0-9a-fA-F]{8}|\\u[0-9a-fA-F]{4}|\\x[0-9a-fA-F]{2}|\\.|.", re.DOTALL
)


def tokens_of(text: str) -> List[str]:
    return _TOKEN_RE.findall(text)


def shrink_pattern(text: str, still_fails: Any, seconds: float = 8.0) -> str:
    """Delete tokens (escapes stay whole) while ``still_fails(text)`` holds; 1-minimal."""
    import time as _time

    deadline = _time.time() + seconds
    toks = tokens_of(text)
    chunk = max(1, len(toks) // 2)
    while True:
        changed = False
        i = 0
        while i < len(toks):
            if _time.time() > deadline:
                return "".join(toks)
            cand = toks[:i] + toks[i + chunk:]
            if len(cand) < len(toks) and still_fails("".join(cand)):
                toks, changed = cand, True
            else:
                i += chunk
        if chunk > 1:
            chunk = max(1, chunk // 2)
        elif not changed:
            break
    # polish: windows of 2..4 tokens at every offset, and bracket pairs
    changed = True
    while changed and _time.time() < deadline:
        changed = False
        for size in (4, 3, 2, 1):
            i = 0
            while i + size <= len(toks) and _time.time() < deadline:
                cand = toks[:i] + toks[i + size:]
                if still_fails("".join(cand)):
                    toks, changed = cand, True
                else:
                    i += 1
        for i, tok in enumerate(toks):
            if tok not in ("(", "[") or _time.time() > deadline:
                continue
            close = ")" if tok == "(" else "]"
            for j in range(i + 1, len(toks)):
                if toks[j] == close:
                    cand = toks[:i] + toks[i + 1: j] + toks[j + 1:]
                    if still_fails("".join(cand)):
                        toks, changed = cand, True
                        break
            if changed:
                break
    # canonical characters: every plain or escaped character becomes ``a`` (BMP) or
    # U+10000 (astral) where the failure survives the replacement
    meta = set("\\^()[]-")
    for i, tok in enumerate(list(toks)):
        if _time.time() > deadline:
            break
        if len(tok) == 1 and tok not in meta:
            cp = ord(tok)
        elif len(tok) > 2 and tok[0] == "\\" and tok[1] in "Uux":
            cp = int(tok[2:], 16)
        else:
            continue
        simple = "\\U00010000" if cp > 0xFFFF else "a"
        if tok != simple:
            cand = toks[:i] + [simple] + toks[i + 1:]
            if still_fails("".join(cand)):
                toks = cand
    return "".join(toks)


def skeleton(text: str) -> str:
    """Pattern text with characters replaced by their class (A astral, S surrogate,
    B other non-ASCII or escaped, a letter, 1 digit); runs collapsed."""
    out: List[str] = []
    for tok in tokens_of(text):
        if len(tok) > 2 and tok[0] == "\\" and tok[1] in "Uux":
            cp = int(tok[2:], 16)
            cls = "A" if cp > 0xFFFF else "S" if is_surrogate(cp) else "B"
        elif len(tok) == 1 and ord(tok) > 0x7F:
            cp = ord(tok)
            cls = "A" if cp > 0xFFFF else "S" if is_surrogate(cp) else "B"
        elif len(tok) == 1 and tok.isalpha():
            cls = "a"
        elif len(tok) == 1 and tok.isdigit():
            cls = "1"
        else:
            cls = tok
        if out and out[-1] == cls and cls in ("A", "S", "B", "a", "1"):
            continue
        out.append(cls)
    return "".join(out)[:60]


# ---------------------------------------------------------------------------
# Pattern generator
# ---------------------------------------------------------------------------

PLAIN = list("abcxyzABZ019_ ,:/=~@!%&;<>\"'#") + ["-", "}", "]"]
NON_ASCII_BMP = ["\u00e9", "\u00df", "\u00a0", "\u0100", "\u0660", "\u2028", "\u3042",
                 "\ud7ff", "\ue000", "\ufffd", "\uffff"]
ASTRAL_CPS = [0x10000, 0x10001, 0x103FF, 0x10400, 0x10401, 0x107FF, 0x10800, 0x1D7FF,
              0x1F600, 0x1F64F, 0x1FFFF, 0x20000, 0xFFFFF, 0x100000, 0x10FBFF, 0x10FC00,
              0x10FFFE, 0x10FFFF]
SURROGATE_CPS = [0xD800, 0xD83D, 0xDBFF, 0xDC00, 0xDE00, 0xDFFF]
KNOWN_ESCAPES = ["\\t", "\\n", "\\r", "\\f", "\\v", "\\.", "\\#", "\\^", "\\$", "\\(", "\\)",
                 "\\[", "\\]", "\\\\", "\\*", "\\+", "\\?"]
KNOWN_SET_ESCAPES = ["\\t", "\\n", "\\r", "\\f", "\\v", "\\\\", "\\[", "\\]", "\\^", "\\-"]
MISS_ESCAPES = ["\\-", "\\{", "\\}", "\\|", "\\/", "\\d", "\\D", "\\s", "\\S", "\\w", "\\W",
                "\\b", "\\B", "\\A", "\\Z", "\\0", "\\1", "\\a", "\\e", "\\N{DASH}", "\\p{L}",
                "\\xZ1", "\\x4", "\\u12", "\\u12G4", "\\U0000004", "\\U00110000",
                "\\U00000041", "\\U0000FFFF", "\\", "\\ ", "\\,", "\\:", "\\_", "\\'"]
MISS_SET_ESCAPES = ["\\.", "\\d", "\\s", "\\S", "\\w", "\\$", "\\(", "\\*", "\\x", "\\u00",
                    "\\U0000FFFF", "\\U00110000", "\\"]
SET_LITERALS = list("abcxyzAZ09_.*+?(){}|$# ,:/=~@!%&;<>\"'")
QUANTS = ["*", "+", "?", "*?", "+?", "??"]
MISS_QUANTS = ["{3,1}", "{ 2 }", "{2 }", "{ 2}", "{1 ,2}", "{1, 2}", "{\t1,\t2\t}", "{,}", "{}",
               "{2", "{2,", "{1,2,3}", "{-1}", "{\u00b2}", "{\u0663}", "{1\u0660}", "{1.5}",
               "{a}", "**", "*+", "+*", "?*", "{1}{2}", "?{2}", "+{2}", "{2}*", "{2}+",
               "{ }", "{ , }", "{ ,2}", "{0,0}", "{00}", "{007}", "{2}??", "*??", "{,2}?"]
HOSTILE_TOKENS = ["(", ")", "[", "]", "[^", "{", "}", "|", "*", "+", "?", "^", "$", ".", "-",
                  "\\", ",", "a", "b", "1", "2", " ", "\t", "(?:", "(?=", "(?P<n>", "(?i)",
                  "[]", "[^]", "[-", "-]", "--", "[[", "]]", "[:alpha:]", "\\U00010000",
                  "\\U0010FFFF", "\\uD800", "\\x00", "\\x", "\\u", "\\U", "\u00b2", "\u0663",
                  "\U0001F600", "\ud800", "\n", "\r", "\x00", "{1,2}", "{,", ",}", "()", "(|)",
                  "||", "^*", "$?", "^+", "${2}", "[a-b-c]", "[--a]", "[a--]", "[z-a]",
                  "[\\^-a]", "[\\--a]", "[+--]", "[]a]", "[^]a]", "[a-a]"]

REAL_WORLD = [
    "^[a-zA-Z][a-zA-Z0-9_]*$",
    "^(0|[1-9][0-9]*)$",
    "^[\\x09\\x0A\\x0D\\x20-\\uD7FF\\uE000-\\uFFFD\\U00010000-\\U0010FFFF]*$",
    "^([\\t\\n\\r -\\ud7ff\\ue000-\\ufffd]|\\ud800[\\udc00-\\udfff]|[\\ud801-\\udbfe][\\udc00-\\udfff]|\\udbff[\\udc00-\\udfff])*$",
    "^-?(([1-9][0-9][0-9][0-9]+)|(0[0-9][0-9][0-9]))-((0[1-9])|(1[0-2]))-((0[1-9])|([12][0-9])|(3[01]))$",
    "^([!#$%&'*+\\-.^_`|~0-9a-zA-Z])+/([!#$%&'*+\\-.^_`|~0-9a-zA-Z])+$",
    "^[a-zA-Z]{2,3}(-[a-zA-Z]{3}(-[a-zA-Z]{3}){0,2})?$",
    "^(\\+|-)?([0-9]+(\\.[0-9]*)?|\\.[0-9]+)([Ee](\\+|-)?[0-9]+)?$",
    "^file:(//((localhost|)/)?|/)[a-z%0-9\\-._~!$&'()*+,;=:@/]*$",
    "^[0-9]{1,3}\\.[0-9]{1,3}$",
    "^([0-9a-fA-F]{2})*$",
    "^(true|false|1|0)$",
]


class Options:
    """Knobs of the grammar walk (all probabilities in [0, 1])."""

    def __init__(self, **kw: Any) -> None:
        self.astral = 0.08          # astral characters / ranges
        self.non_ascii = 0.1
        self.dot = True
        self.negated = True
        self.surrogate_cp = 0.03    # lone-surrogate code points in the pattern
        self.bmp_to_astral = 0.0    # ranges from the BMP into an astral plane
        self.nongreedy = True
        self.anchored = 0.5         # wrap in ^...$
        self.inner_anchors = 0.04
        self.miss = 0.0             # near-miss spelling per construct
        self.max_depth = 2
        self.max_terms = 3
        self.splices = 0.0
        self.big_counts = 0.03
        for k, v in kw.items():
            if not hasattr(self, k):
                raise TypeError(f"unknown option {k}")
            setattr(self, k, v)


MODES = ("subset", "astral", "anchored", "nearmiss", "hostile", "mutant", "realworld")


def options_for(mode: str, **kw: Any) -> Options:
    if mode == "subset":
        base: Dict[str, Any] = {}
    elif mode == "astral":
        base = dict(astral=0.45, non_ascii=0.15, anchored=0.8)
    elif mode == "anchored":  # C18: ^...$, greedy only, no inner anchors
        base = dict(anchored=1.0, nongreedy=False, inner_anchors=0.0, surrogate_cp=0.0)
    elif mode in ("nearmiss", "mutant"):
        base = dict(miss=0.12, astral=0.1)
    else:
        base = {}
    base.update(kw)
    return Options(**base)


class _Gen:
    def __init__(self, rng: random.Random, opt: Options) -> None:
        self.rng = rng
        self.opt = opt
        self.pieces: List[Piece] = []

    # -- encoders -----------------------------------------------------------
    def enc_cp(self, cp: int, in_set: bool) -> str:
        """One of the spellings of a code point that the subset knows."""
        rng = self.rng
        ch = chr(cp)
        r = rng.random()
        if cp > 0xFFFF:
            if r < 0.6:
                return "\\U%08x" % cp if rng.random() < 0.5 else "\\U%08X" % cp
            return ch
        if is_surrogate(cp):
            return "\\u%04x" % cp if r < 0.9 else ch
        special = "\\[]^-" if in_set else "\\.^$()[]*+?{}|#"
        if ch in special or cp < 0x20 or cp == 0x7F:
            if cp <= 0xFF and r < 0.5:
                return "\\x%02x" % cp if rng.random() < 0.5 else "\\x%02X" % cp
            named = {"\t": "\\t", "\n": "\\n", "\r": "\\r", "\f": "\\f", "\v": "\\v"}
            if ch in named:
                return named[ch]
            if in_set and ch in "\\[]^-":
                return "\\" + ch
            if not in_set and ch in "\\.^$()[]*+?#":
                return "\\" + ch
            return "\\x%02x" % cp if cp <= 0xFF else "\\u%04x" % cp
        if r < 0.12:
            return "\\x%02x" % cp if cp <= 0xFF else "\\u%04x" % cp
        if r < 0.18:
            return "\\u%04X" % cp
        return ch

    def pick_cp(self, in_set: bool) -> int:
        rng, opt = self.rng, self.opt
        r = rng.random()
        if r < opt.astral:
            return rng.choice(ASTRAL_CPS) if rng.random() < 0.7 else rng.randint(0x10000, MAX_CP)
        r -= opt.astral
        if r < opt.surrogate_cp:
            return rng.choice(SURROGATE_CPS)
        r -= opt.surrogate_cp
        if r < opt.non_ascii:
            return ord(rng.choice(NON_ASCII_BMP))
        pool = SET_LITERALS if in_set else PLAIN
        if rng.random() < 0.08:
            return ord(rng.choice("\t\n\r\f\v.^$()[]*+?\\#-"))
        return ord(rng.choice(pool))

    # -- grammar --------------------------------------------------------------
    def literal(self) -> str:
        rng, opt = self.rng, self.opt
        if opt.miss and rng.random() < opt.miss:
            return rng.choice(MISS_ESCAPES)
        if rng.random() < 0.1:
            return rng.choice(KNOWN_ESCAPES)
        cp = self.pick_cp(False)
        if chr(cp) in "{|":
            return "\\x%02x" % cp
        if chr(cp) in "]}" and rng.random() < 0.5:
            return chr(cp)
        return self.enc_cp(cp, False)

    def charset(self) -> str:
        rng, opt = self.rng, self.opt
        miss = opt.miss and rng.random() < opt.miss * 2
        negate = opt.negated and rng.random() < 0.25
        n = rng.choice([1, 1, 2, 2, 3, 4, 6])
        cps = sorted({self.pick_cp(True) for _ in range(n * 2)})
        if negate and not miss:
            # the front end refuses complemented astral sets; keep most of them BMP
            if rng.random() < 0.98:
                cps = [c for c in cps if c <= 0xFFFF] or [0x61]
        items: List[str] = []
        i = 0
        while i < len(cps):
            lo = cps[i]
            if i + 1 < len(cps) and rng.random() < 0.55:
                hi = cps[i + 1]
                if hi > 0xFFFF >= lo and rng.random() >= opt.bmp_to_astral:
                    items.append(self.enc_cp(lo, True))
                    i += 1
                    continue
                items.append(self.enc_cp(lo, True) + "-" + self.enc_cp(hi, True))
                i += 2
            else:
                items.append(self.enc_cp(lo, True))
                i += 1
        if opt.bmp_to_astral and rng.random() < opt.bmp_to_astral:
            items = [
                self.enc_cp(rng.choice([0x61, 0xE000, 0xFFFF, 0x20]), True)
                + "-"
                + self.enc_cp(rng.choice(ASTRAL_CPS), True)
            ]
        rng.shuffle(items)
        items = items[: max(1, n)]
        if rng.random() < 0.06:
            items.append(rng.choice(KNOWN_SET_ESCAPES[:5]))
        if rng.random() < 0.05 and "^" not in items and "\\^" not in items:
            items.append("^")
        # a bare dash is a literal only in the first or the last position
        dashes = ("-", "\\-", "\\x2d", "\\x2D")
        r = rng.random()
        if r < 0.12:
            items = ["-"] + [it for it in items if it not in dashes]
        elif r < 0.24:
            items = [it for it in items if it not in dashes] + ["-"]
        if miss:
            k = rng.randrange(12)
            if k == 0:
                items = []
            elif k == 1:
                items.insert(rng.randrange(len(items) + 1), "-")
            elif k == 2:
                items.append(rng.choice(MISS_SET_ESCAPES))
            elif k == 3:
                items.insert(0, "]")
            elif k == 4:
                items.insert(0, "\\^-" + rng.choice("az~"))
            elif k == 5:
                items.append("a-b-c")
            elif k == 6:
                items.append("z-a")
            elif k == 7:
                items.insert(0, "--" + rng.choice("az"))
            elif k == 8:
                items.insert(0, "^")
            elif k == 9:
                items = items + items[:1]
            elif k == 10:
                items.append("\\U%08x" % rng.choice([0x10000, 0x10001, 0x10FFFF]))
                negate = True
            else:
                items.append(rng.choice(["[", "[:alpha:]", "&&", "||", "~~", "--"]))
        text = "[" + ("^" if negate else "") + "".join(items)
        if miss and rng.random() < 0.08:
            return text
        return text + "]"

    def quantifier(self, narrow: bool = False) -> str:
        """A quantifier; ``narrow`` = at most 3 repetitions (used inside wide ones)."""
        rng, opt = self.rng, self.opt
        if opt.miss and rng.random() < opt.miss * 2:
            return rng.choice(MISS_QUANTS)
        r = rng.random()
        if narrow and r < 0.4:
            q = rng.choice(["?", "?", "{0,1}", "{1}", "{,1}"])
        elif r < 0.5:
            q = rng.choice(QUANTS[:3])
        else:
            lo = rng.choice([0, 1, 1, 2, 3])
            hi = lo + rng.choice([0, 1, 2, 3])
            if narrow:
                lo = rng.choice([0, 1, 1, 2])
                hi = min(3, lo + rng.choice([0, 1, 2]))
            elif rng.random() < opt.big_counts:
                lo, hi = rng.choice([(17, 17), (0, 64), (30, 33), (100, 100)])
            form = rng.randrange(6)
            if form == 0:
                q = "{%d}" % lo
            elif form == 1 and not narrow:
                q = "{%d,}" % lo
            elif form == 2:
                q = "{,%d}" % hi
            elif form == 3:
                q = "{%d,%d}" % (lo, hi)
            elif form == 4:
                q = "{%02d,%d}" % (lo, hi)
            else:
                q = "{%d,%d}" % (lo, lo)
        if opt.nongreedy and rng.random() < 0.15:
            q += "?"
        return q

    @staticmethod
    def is_wide(q: str) -> bool:
        """More than three repetitions possible (or not a well-formed quantifier)."""
        q = q[:-1] if len(q) > 1 and q.endswith("?") else q
        if q == "?":
            return False
        m = re.fullmatch(r"\{(\d*)(,?)(\d*)\}", q)
        if m is None:
            return True
        lo, comma, hi = m.groups()
        top = hi if comma else lo
        return top == "" or int(top) > 3

    def atom(self, depth: int, narrow: bool) -> Tuple[str, bool]:
        """Return (text, quantifiable)."""
        rng, opt = self.rng, self.opt
        r = rng.random()
        if r < 0.42:
            return self.literal(), True
        if r < 0.68:
            return self.charset(), True
        if r < 0.86:
            if depth >= opt.max_depth:
                return self.charset(), True
            inner = self.union(depth + 1, narrow)
            if opt.miss and rng.random() < opt.miss:
                return (
                    rng.choice(["(?:", "(?=", "(?P<n>", "(?i)", "("])
                    + inner
                    + rng.choice([")", ""]),
                    True,
                )
            return "(" + inner + ")", True
        if r < 0.93:
            return (".", True) if opt.dot else (self.literal(), True)
        if r < 0.93 + opt.inner_anchors:
            return rng.choice("^$"), bool(opt.miss and rng.random() < 0.5)
        return self.literal(), True

    def concat(self, depth: int, narrow: bool = False) -> str:
        """
        A concatenation of terms.

        The quantifier of a term is drawn *before* its atom: under a wide quantifier
        (or inside one, ``narrow``) every inner quantifier allows at most 3 repetitions,
        so that backtracking engines stay polynomial on the sampled strings.
        """
        rng, opt = self.rng, self.opt
        if depth:
            n = rng.choice([0, 1, 1, 2, 2, min(3, opt.max_terms)])
        else:
            n = rng.randint(1, opt.max_terms)
        out = []
        for _ in range(n):
            q = self.quantifier(narrow) if rng.random() < 0.4 else ""
            text, quantifiable = self.atom(depth, narrow or (q != "" and self.is_wide(q)))
            out.append(text + (q if quantifiable else ""))
            if opt.splices and rng.random() < opt.splices:
                out.append("\x00SPLICE\x00")
                if rng.random() < 0.4:
                    out.append(self.quantifier(True))
        return "".join(out)

    def union(self, depth: int, narrow: bool = False) -> str:
        rng = self.rng
        k = rng.choice([1, 1, 1, 1, 2, 2, 3])
        alts = [self.concat(depth, narrow) for _ in range(k)]
        if rng.random() < 0.04:
            alts.append("")
        return "|".join(alts)

    def regex(self) -> str:
        rng, opt = self.rng, self.opt
        body = self.union(0)
        if rng.random() < opt.anchored:
            if "|" in body and rng.random() < 0.8:
                body = "(" + body + ")"
            body = "^" + body + "$"
        return body


def mutate(rng: random.Random, text: str, n: Optional[int] = None) -> str:
    """Text-level near-miss: a few random edits with a bias to metacharacters."""
    meta = list("()[]{}|*+?^$.-\\,") + ["\\x", "\\u", "\\U", "{,", "[^", " ", "\t", "2", "a",
                                        "\u00b2", "\U0001F600", "\\U00010000"]
    if n is None:
        n = rng.choice([1, 1, 1, 2, 3])
    for _ in range(n):
        if not text:
            text = rng.choice(meta)
            continue
        i = rng.randrange(len(text))
        op = rng.randrange(7)
        if op == 0:
            text = text[:i] + text[i + 1:]
        elif op == 1:
            text = text[:i] + rng.choice(meta) + text[i:]
        elif op == 2:
            text = text[:i] + rng.choice(meta) + text[i + 1:]
        elif op == 3:
            text = text[:i] + text[i] + text[i:]
        elif op == 4 and i + 1 < len(text):
            text = text[:i] + text[i + 1] + text[i] + text[i + 2:]
        elif op == 5:
            text = text[:i]
        else:
            j = rng.randrange(len(text))
            a, b = min(i, j), max(i, j)
            text = text[:a] + text[b:] + text[a:b]
    return text


def hostile(rng: random.Random) -> str:
    n = rng.choice([1, 2, 2, 3, 4, 6, 9])
    return "".join(rng.choice(HOSTILE_TOKENS) for _ in range(n))


def gen_pattern(rng: random.Random, mode: str = "subset", seeds: Sequence[str] = (), **kw: Any) -> str:
    """
    One pattern text.

    ``mode``: ``subset`` (inside the supported grammar), ``astral`` (subset, rich in
    non-BMP literals/ranges), ``anchored`` (``^...$``, greedy only -- for the VM check),
    ``nearmiss`` (grammar walk with near-miss spellings), ``mutant`` (text mutation of a
    subset pattern or of one of ``seeds``), ``hostile`` (token soup), ``realworld``
    (patterns of the kind found in the meta-models).  Keyword arguments override
    :class:`Options` fields.
    """
    if mode == "hostile":
        return hostile(rng)
    if mode == "realworld":
        return rng.choice(list(seeds) + REAL_WORLD)
    if mode == "mutant":
        pool = list(seeds) + REAL_WORLD
        if rng.random() < 0.5:
            base = rng.choice(pool)
        else:
            base = _Gen(rng, options_for("subset", **kw)).regex()
        if len(base) > 60:
            a = rng.randrange(len(base) - 40)
            base = base[a: a + rng.randint(10, 60)]
        return mutate(rng, base)
    if "max_depth" not in kw and "max_terms" not in kw and rng.random() < 0.12:
        kw["max_depth"], kw["max_terms"] = 3, 5  # a minority of large patterns
    text = _Gen(rng, options_for(mode, **kw)).regex()
    if mode == "nearmiss" and rng.random() < 0.3:
        text = mutate(rng, text, 1)
    return text


def gen_pieces(rng: random.Random, mode: str = "subset", **kw: Any) -> List[Piece]:
    """Like :func:`gen_pattern`, but with f-string splices: a list of ``str | Splice``."""
    kw.setdefault("splices", 0.25)
    text = _Gen(rng, options_for(mode, **kw)).regex()
    parts = text.split("\x00SPLICE\x00")
    pieces: List[Piece] = []
    for i, part in enumerate(parts):
        if i > 0:
            pieces.append(Splice("x%d" % i))
        if part:
            pieces.append(part)
    if not pieces:
        pieces = [""]
    return pieces


#: Code points used to enumerate astral range shapes systematically (C17).
ASTRAL_EDGE_CPS = [0x10000, 0x10001, 0x103FE, 0x103FF, 0x10400, 0x10401, 0x107FF, 0x10800,
                   0x10BFF, 0x10C00, 0x1F600, 0x1FFFF, 0x20000, 0x10FBFF, 0x10FC00,
                   0x10FFFE, 0x10FFFF]


#: Starts of ranges that span from the basic plane into a supplementary plane.
BMP_EDGE_CPS = [0x20, 0x61, 0xD7FF, 0xE000, 0xFFFD]


def astral_range_patterns() -> List[str]:
    """Every lo<=hi pair of the edge code points, in three pattern shapes."""
    out = []
    cps = ASTRAL_EDGE_CPS
    for i, lo in enumerate(cps):
        for hi in cps[i:]:
            rng_text = "\\U%08x-\\U%08x" % (lo, hi) if lo != hi else "\\U%08x" % lo
            out.append("^[%s]$" % rng_text)
            out.append("^[a-z%s_]{2,3}$" % rng_text)
            out.append("^x([%s]|-)*y$" % rng_text)
    return out


def bmp_to_astral_range_patterns() -> List[str]:
    """Ranges that start in the basic plane and end in a supplementary plane."""
    out = []
    for lo in BMP_EDGE_CPS:
        for hi in (0x10000, 0x10001, 0x103FF, 0x10400, 0x1F600, 0x10FFFF):
            lo_text = chr(lo) if lo == 0x61 else ("\\x%02x" % lo if lo < 0x100 else "\\u%04x" % lo)
            rng_text = "%s-\\U%08x" % (lo_text, hi)
            out.append("^[%s]$" % rng_text)
            out.append("^[%s]+$" % rng_text)
            out.append("^[%s]{2}$" % rng_text)
    return out
