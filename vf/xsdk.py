"""
Helpers of C09: run the generated TypeScript, Java and C++ SDKs on a common workload.

The Python SDK (:mod:`vf.pysdk`) is the reference.  Every name used to reach into a
non-Python SDK is derived through the repo's own ``aas_core_codegen.<target>.naming``.
"""
import glob
import json
import math
import os
import pathlib
import re
import shutil
import signal
import subprocess
import time
from typing import Any, Dict, List, Optional, Sequence, Tuple

from vf import driver, env, instances, mmgen, pyexec

NATIVE = env.VERIF / "native" / "c09"
TL_DIR = env.VERIF / "native"  # contains tl/expected.hpp
NODE22 = "/root/.nvm/versions/node/v22.22.2/bin/node"
MAX_SAFE = 2**53


# --------------------------------------------------------------------- processes
class Proc:
    def __init__(self, rc: Optional[int], out: str, err: str, seconds: float) -> None:
        self.rc = rc  # None = timed out
        self.out = out
        self.err = err
        self.seconds = seconds


def run_group(
    cmd: Sequence[str],
    cwd: pathlib.Path,
    timeout: float,
    extra_env: Optional[Dict[str, str]] = None,
) -> Proc:
    """Run in an own process group; on timeout kill the whole group (g++ forks cc1plus)."""
    environ = dict(os.environ)
    if extra_env:
        environ.update(extra_env)
    t0 = time.time()
    proc = subprocess.Popen(
        list(cmd),
        cwd=str(cwd),
        env=environ,
        stdout=subprocess.PIPE,
        stderr=subprocess.PIPE,
        start_new_session=True,
    )
    try:
        out, err = proc.communicate(timeout=timeout)
        rc: Optional[int] = proc.returncode
    except subprocess.TimeoutExpired:
        try:
            os.killpg(proc.pid, signal.SIGKILL)
        except ProcessLookupError:
            pass
        out, err = proc.communicate()
        rc = None
    return Proc(
        rc, out.decode("utf-8", "replace"), err.decode("utf-8", "replace"), time.time() - t0
    )


# --------------------------------------------------------------------- toolchains
class Toolchains:
    def __init__(self) -> None:
        self.node: Optional[str] = None
        self.node_why = ""
        self.javac: Optional[str] = None
        self.java: Optional[str] = None
        self.jars: List[str] = []
        self.java_why = ""
        self.gxx: Optional[str] = None
        self.gxx_why = ""
        self._probe()

    def _probe(self) -> None:
        candidates = [NODE22] + [p for p in [shutil.which("node")] if p]
        for cand in candidates:
            if not os.path.exists(cand):
                continue
            try:
                proc = subprocess.run(
                    [cand, "--experimental-transform-types", "-e", "0"],
                    stdout=subprocess.PIPE, stderr=subprocess.PIPE, timeout=60,
                )
            except (OSError, subprocess.TimeoutExpired):
                continue
            if proc.returncode == 0:
                self.node = cand
                break
        if self.node is None:
            self.node_why = "no node with --experimental-transform-types (>= 22.7) found"
        self.javac, self.java = shutil.which("javac"), shutil.which("java")
        if not self.javac or not self.java:
            self.java_why = "javac/java not on PATH"
        else:
            for part in ("core", "databind", "annotations"):
                found = sorted(
                    glob.glob(f"/opt/veriftools/**/jackson-{part}-2.*.jar", recursive=True)
                )
                if not found:
                    self.java_why = f"jackson-{part} jar not found under /opt/veriftools"
                    break
                self.jars.append(found[0])
        self.gxx = shutil.which("g++")
        if not self.gxx:
            self.gxx_why = "g++ not on PATH"
        elif not (TL_DIR / "tl" / "expected.hpp").exists():
            self.gxx_why = "stand-in tl/expected.hpp is missing"

    def available(self, leg: str) -> bool:
        if leg == "typescript":
            return self.node is not None
        if leg == "java":
            return not self.java_why
        if leg == "cpp":
            return not self.gxx_why
        raise AssertionError(leg)

    def why(self, leg: str) -> str:
        return {"typescript": self.node_why, "java": self.java_why, "cpp": self.gxx_why}[leg]


# --------------------------------------------------------------------- MMG restricted
class CommonGenerator(mmgen.Generator):
    """
    MMG restricted to what all four generators accept (found by probing):

    * lists only of classes (Java and C++ refuse lists of primitives / enumerations /
      constrained primitives: "We handle only lists of classes ..."),
    * ``len(<bytearray>)`` only if ``bytes_len`` (the Java transpiler refuses it),
    * classes with more than one base get a docstring (without one the Java generator
      dies in ``_generate_interface`` with a ``Stripped`` contract violation),
    * ``int`` and ``float`` (properties, constrained primitives, verification functions
      over them), constants of primitive type and constant sets of integers only if
      ``java_hostile`` (the emitted ``Jsonization.java`` / ``Xmlization.java`` /
      ``Constants.java`` do not compile for them, see proposals/C09.md).
    """

    bytes_len = False
    java_hostile = False

    def gen_consts(self) -> None:
        super().gen_consts()
        if not self.java_hostile:
            self.m.consts = [c for c in self.m.consts if c.kind in ("set_str", "set_enum")]

    def gen_funcs(self) -> None:
        super().gen_funcs()
        if not self.java_hostile:
            self.m.funcs = [
                f for f in self.m.funcs
                if not (f.kind == "transpilable" and f.args[0][1] in ("int", "float"))
            ]

    def gen_cprims(self) -> None:
        super().gen_cprims()
        if not self.java_hostile:
            self.m.cprims = [c for c in self.m.cprims if c.prim not in ("int", "float")]

    def random_type(self, cls_index: int) -> mmgen.T:
        for _ in range(50):
            t = super().random_type(cls_index)
            core = t.inner if t.kind == "optional" else t
            if core.kind == "list" and core.inner.kind != "cls":
                continue
            if not self.java_hostile and core.kind == "prim" and core.name in ("int", "float"):
                continue
            return t
        return mmgen.T("prim", "str")

    def atom(self, e, t, depth, simple=False, prim_override=None):  # type: ignore
        prim = prim_override
        if prim is None and t.kind == "prim":
            prim = t.name
        if prim is None and t.kind == "cprim":
            prim = next(c.prim for c in self.m.cprims if c.name == t.name)
        if prim == "bytearray" and not self.bytes_len:
            return "True == True"
        return super().atom(e, t, depth, simple, prim_override)

    def gen_class_bodies(self) -> None:
        super().gen_class_bodies()
        for cls in self.m.classes:
            if len(cls.bases) > 1 and cls.doc is None:
                cls.doc = self.docstring()


def common_profile(java_hostile: bool) -> mmgen.Profile:
    return mmgen.Profile(
        float_props=java_hostile,
        sdk_safe=True,
        n_impl_fns=(0, 0),
        p_impl_method=0,
        p_invariant=0.9,
        list_of_lists=False,
        n_enums=(1, 3),
        n_const_sets=(1, 3),
        n_const_prims=(0, 2),
    )


def generate_model(rng, java_hostile: bool) -> mmgen.Model:
    """``java_hostile``: use the constructs on which the Java leg is known to fail."""
    gen = CommonGenerator(rng, common_profile(java_hostile))
    gen.bytes_len = java_hostile
    gen.java_hostile = java_hostile
    return gen.generate()


# --------------------------------------------------------------------- instances
class _SafeNumbers:
    """Keep integers within +-2^53 (JavaScript numbers) — a documented limit, see C09."""

    def gen_prim(self, prim: str) -> Any:  # type: ignore
        for _ in range(20):
            value = super().gen_prim(prim)  # type: ignore
            if prim == "int" and abs(value) > MAX_SAFE:
                continue
            return value
        return 0


class ArbitraryGenerator(_SafeNumbers, instances.InstanceGenerator):
    pass


class SatisfyingGenerator(_SafeNumbers, instances.SatisfyingGenerator):
    pass


# --------------------------------------------------------------------- model facts
class Facts:
    """What the drivers need to know about a model, in meta-model names."""

    def __init__(self, pm: pyexec.PyModel) -> None:
        from aas_core_codegen import naming
        from aas_core_codegen.common import Identifier

        self.pm = pm
        self.Identifier = Identifier
        self.naming = naming
        self.classes = [n for n in pm.order if pm.is_class(n)]
        self.concrete = [n for n in self.classes if not pm.classes[n].abstract]
        self.enums = [n for n in pm.order if pm.is_enum(n)]
        self.cprims = [n for n in pm.order if pm.is_constrained_primitive(n)]
        self.props = sorted(
            {prop.name for n in self.classes for _, prop in pm.all_props(n)}
        )
        self.constants: List[Tuple[str, str, str]] = []  # name, kind, element
        for name, const in pm.constants.items():
            if const.call == "constant_set":
                elem = const.type.inner.name if const.type.inner is not None else ""
                if pm.is_enum(elem):
                    self.constants.append((name, "set_enum", elem))
                else:
                    self.constants.append((name, f"set_{elem}", elem))
            elif const.call.startswith("constant_"):
                self.constants.append((name, "prim", const.call[len("constant_"):]))

    def json_prop(self, name: str) -> str:
        return str(self.naming.json_property(self.Identifier(name)))

    def json_model_type(self, cls: str) -> str:
        return str(self.naming.json_model_type(self.Identifier(cls)))

    def class_by_model_type(self, text: Any) -> Optional[str]:
        for cls in self.concrete:
            if self.json_model_type(cls) == text:
                return cls
        return None

    # -- declared kind at a JSON path (for mechanism keys only) -----------------
    def kind_of(self, t: pyexec.TypeRef) -> str:
        mark = ""
        if t.kind == "optional":
            mark, t = "optional-", t.inner
        if t.kind == "list":
            return mark + "list"
        if t.kind == "atomic":
            prim = self.pm.primitive_of(t.name)
            if prim is not None:
                return mark + ("bytes" if prim == "bytearray" else prim)
            if self.pm.is_enum(t.name):
                return mark + "enum"
            if self.pm.is_class(t.name):
                return mark + "class"
        return mark + "unknown"

    def declared_at(self, root_cls: str, doc: Any, path: Tuple) -> str:
        """Kind declared for the value at ``path`` of a document rooted at ``root_cls``."""
        t: Optional[pyexec.TypeRef] = pyexec.TypeRef("atomic", root_cls)
        value = doc
        for seg in path:
            if t is None:
                return "unknown"
            core = t.inner if t.kind == "optional" else t
            if isinstance(seg, int):
                if core.kind != "list":
                    return "unknown"
                t = core.inner
                value = value[seg] if isinstance(value, list) and seg < len(value) else None
                continue
            if core.kind != "atomic" or not self.pm.is_class(core.name):
                return "unknown"
            cls = core.name
            if isinstance(value, dict) and isinstance(value.get("modelType"), str):
                cls = self.class_by_model_type(value["modelType"]) or cls
            if seg == "modelType":
                return "model-type"
            found = None
            if cls in self.pm.classes:
                for _, prop in self.pm.all_props(cls):
                    if self.json_prop(prop.name) == seg:
                        found = prop.type
                        break
            if found is None:
                return "unknown-property"
            t = found
            value = value.get(seg) if isinstance(value, dict) else None
        return self.kind_of(t) if t is not None else "unknown"


def javascript_view(facts: Facts, cls: str, doc: Any) -> Any:
    """
    The document as a JavaScript program can see it (two documented design limits):

    * ``JSON.parse`` does not tell ``1`` from ``1.0``: where the meta-model declares a
      ``float`` an integer is read as that float, and where it declares an ``int`` an
      integral float (within +-2^53) is read as that integer;
    * the generated TypeScript de-serialiser ignores object members it does not know
      (NOTE in the emitted ``*FromJsonableWithoutDispatch``: "we ignore properties which
      we do not know how to de-serialize"); ``modelType`` is kept.

    The TypeScript verdict on a document is compared with the Python verdict on this
    view of it.
    """
    pm = facts.pm

    def visit(value: Any, t: Optional[pyexec.TypeRef]) -> Any:
        if t is None:
            return value
        core = t.inner if t.kind == "optional" else t
        if core.kind == "list":
            if isinstance(value, list):
                return [visit(v, core.inner) for v in value]
            return value
        if core.kind != "atomic":
            return value
        prim = pm.primitive_of(core.name)
        if prim == "float" and isinstance(value, int) and not isinstance(value, bool):
            return float(value)
        if (
            prim == "int" and isinstance(value, float) and math.isfinite(value)
            and value == int(value) and abs(value) <= MAX_SAFE
        ):
            return int(value)
        if not pm.is_class(core.name) or not isinstance(value, dict):
            return value
        target = core.name
        if isinstance(value.get("modelType"), str):
            target = facts.class_by_model_type(value["modelType"]) or target
        known = {facts.json_prop(prop.name): prop.type for _, prop in pm.all_props(target)}
        result = {}
        for key, sub in value.items():
            if key == "modelType":
                result[key] = sub
            elif key in known:
                result[key] = visit(sub, known[key])
        return result

    return visit(doc, pyexec.TypeRef("atomic", cls))


B64_STRICT = re.compile(r"(?:[A-Za-z0-9+/]{4})*(?:[A-Za-z0-9+/]{2}==|[A-Za-z0-9+/]{3}=)?")


def supplied_kind(value: Any, declared: str) -> str:
    if value is None:
        return "null"
    if isinstance(value, bool):
        return "bool"
    if isinstance(value, int):
        return "int"
    if isinstance(value, float):
        return "integral-float" if value == int(value) else "float"
    if isinstance(value, str):
        if declared.endswith("bytes"):
            return "base64" if B64_STRICT.fullmatch(value) else "non-base64-str"
        if any(0xD800 <= ord(ch) <= 0xDFFF for ch in value):
            return "str-with-lone-surrogate"
        return "str"
    if isinstance(value, list):
        return "list"
    if isinstance(value, dict):
        return "object"
    return type(value).__name__


def locate_difference(orig: Any, mut: Any, path: Tuple = ()) -> Optional[Tuple[Tuple, str]]:
    """First place where ``mut`` differs from ``orig``: (path, missing|extra|value)."""
    if type(orig) is not type(mut):
        return path, "value"
    if isinstance(orig, dict):
        if any(k not in mut for k in orig) and any(k not in orig for k in mut):
            return path, "value"  # keys removed and added: the object was replaced
        for key in orig:
            if key not in mut:
                return path + (key,), "missing"
        for key in mut:
            if key not in orig:
                return path + (key,), "extra"
        for key in orig:
            sub = locate_difference(orig[key], mut[key], path + (key,))
            if sub is not None:
                return sub
        return None
    if isinstance(orig, list):
        for i, (a, b) in enumerate(zip(orig, mut)):
            sub = locate_difference(a, b, path + (i,))
            if sub is not None:
                return sub
        if len(orig) != len(mut):
            return path + (min(len(orig), len(mut)),), ("extra" if len(mut) > len(orig) else "missing")
        return None
    if isinstance(orig, float) and isinstance(mut, float) and math.isnan(orig) and math.isnan(mut):
        return None
    return None if orig == mut else (path, "value")


def json_in_scope(value: Any) -> bool:
    """Finite numbers, integers within +-2^53, encodable as strict JSON."""
    if isinstance(value, bool) or value is None or isinstance(value, str):
        return True
    if isinstance(value, int):
        return abs(value) <= MAX_SAFE
    if isinstance(value, float):
        return math.isfinite(value)
    if isinstance(value, list):
        return all(json_in_scope(v) for v in value)
    if isinstance(value, dict):
        return all(isinstance(k, str) and json_in_scope(v) for k, v in value.items())
    return False


def normalise_json(value: Any) -> Any:
    """Canonical form: numbers as floats (bool kept), keys sorted by ``json.dumps``."""
    if isinstance(value, bool) or value is None or isinstance(value, str):
        return value
    if isinstance(value, (int, float)):
        return float(value) + 0.0  # -0.0 -> 0.0
    if isinstance(value, list):
        return [normalise_json(v) for v in value]
    if isinstance(value, dict):
        return {k: normalise_json(v) for k, v in value.items()}
    return repr(value)


def canonical(value: Any) -> str:
    return json.dumps(normalise_json(value), sort_keys=True, ensure_ascii=True)


def message_class(text: Any) -> str:
    text = str(text).splitlines()[0] if str(text) else ""
    text = text.split(": ")[0] if not text.startswith(("crash", "rejected")) else text
    text = re.sub(r"<class '[^']*'>", "T", text)
    text = re.sub(r"'[^']*'|\"[^\"]*\"", "Q", text)
    text = re.sub(r"-?[0-9]+(\.[0-9]+)?([eE][-+]?[0-9]+)?", "N", text)
    return text[:60]


# --------------------------------------------------------------------- names per target
class Names:
    def __init__(self, target: str) -> None:
        import importlib

        from aas_core_codegen.common import Identifier

        self.I = Identifier
        self.n = importlib.import_module(f"aas_core_codegen.{target}.naming")
        self.target = target

    def call(self, fn: str, name: str) -> str:
        return str(getattr(self.n, fn)(self.I(name)))

    def prop_map(self, facts: Facts) -> Dict[str, str]:
        """name of a property in a verification path -> meta-model property name."""
        # C++ renders the ``Property`` enumeration with the getter names
        # (cpp/lib/_generate_iteration.py:_generate_property_to_wstring_implementation).
        fn = "getter_name" if self.target == "cpp" else "property_name"
        result: Dict[str, str] = {}
        for prop in facts.props:
            result[self.call(fn, prop)] = prop
        return result


# --------------------------------------------------------------------- SDK generation
class Generated:
    def __init__(self, target: str, result: driver.RunResult) -> None:
        self.target = target
        self.result = result
        self.ok = result.exc is None and result.rc == 0
        self.root = result.output_dir

    def why(self) -> str:
        if self.result.exc is not None:
            from vf import harness

            return "crash:" + harness.crash_signature(self.result.exc)
        lines = [l.strip() for l in self.result.stderr.strip().splitlines() if l.strip()]
        inner = [
            l for l in lines
            if not re.match(r"^(\* )?At line|^Failed to generate", l)
        ]
        text = inner[-1] if inner else (lines[-1] if lines else "?")
        text = re.sub(r"^At line [0-9]+ and column [0-9]+: ", "", text)
        return "rejected:" + message_class(text)

    def cleanup(self) -> None:
        self.result.cleanup()


def generate(text: str, target: str) -> Generated:
    return Generated(target, driver.run_inprocess(text, target))


# --------------------------------------------------------------------- legs
def read_jsonl(path: pathlib.Path) -> List[Dict[str, Any]]:
    records = []
    if not path.exists():
        return records
    for line in path.read_text(encoding="utf-8", errors="replace").splitlines():
        line = line.strip()
        if not line:
            continue
        try:
            records.append(json.loads(line))
        except ValueError:
            records.append({"unparsable": line[:300]})
    return records


class LegResult:
    def __init__(self, leg: str) -> None:
        self.leg = leg
        self.status = "ok"  # ok | generator-refused | build-failed | run-failed | timeout
        self.detail = ""
        self.records: List[Dict[str, Any]] = []
        self.tables: Optional[Dict[str, Any]] = None
        self.seconds: Dict[str, float] = {}
        self.sanitizer_reports = 0
        self.sanitizer_text = ""
        self.partial_build_failure = ""
        self.excluded_units: List[str] = []
        self.by_case: Dict[int, Dict[str, Any]] = {}

    def index(self) -> None:
        for record in self.records:
            if "tables" in record:
                self.tables = record["tables"]
            elif "case" in record:
                self.by_case[record["case"]] = record


def enum_spec(facts: Facts, names: Names, enum_fn: str, literal_fn: str) -> List[Dict[str, Any]]:
    result = []
    for enum in facts.enums:
        literals = facts.pm.classes[enum].literals
        result.append(
            {
                "name": enum,
                "lang": names.call(enum_fn, enum),
                "literals": [[lit, names.call(literal_fn, lit)] for lit, _ in literals],
            }
        )
    return result


def run_typescript(
    tools: Toolchains, facts: Facts, gen: Generated, cases: List[Dict[str, Any]], timeout: float
) -> LegResult:
    """``cases``: [{"i", "cls", "doc" (JSON text)}]."""
    res = LegResult("typescript")
    names = Names("typescript")
    root = gen.root
    for name in ("driver.ts", "reg.mjs", "hooks.mjs"):
        shutil.copy(NATIVE / name, root / name)
    enums = enum_spec(facts, names, "enum_name", "enum_literal_name")
    for e in enums:
        e["toString"] = names.call("function_name", f"{e['name']}_to_string")
        e["fromString"] = names.call("function_name", f"{e['name']}_from_string")
    constants = []
    for name, kind, elem in facts.constants:
        entry = {"name": name, "lang": names.call("constant_name", name), "kind": kind}
        if kind == "set_enum":
            entry["toString"] = names.call("function_name", f"{elem}_to_string")
        constants.append(entry)
    spec = {
        "enums": enums,
        "constants": constants,
        "cases": [
            {"i": c["i"], "fn": names.call("function_name", f"{c['cls']}_from_jsonable"), "doc": c["doc"]}
            for c in cases
        ],
    }
    (root / "spec.json").write_text(json.dumps(spec, ensure_ascii=True), encoding="utf-8")
    out = root / "out.jsonl"
    assert tools.node is not None
    proc = run_group(
        [tools.node, "--experimental-transform-types", "--no-warnings", "--import", "./reg.mjs",
         "driver.ts", "spec.json", "out.jsonl"],
        root, timeout,
    )
    res.seconds["run"] = proc.seconds
    if proc.rc is None:
        res.status, res.detail = "timeout", "node"
        return res
    if proc.rc != 0:
        res.status = "run-failed"
        res.detail = (proc.err.strip() or proc.out.strip())[-3000:]
        return res
    res.records = read_jsonl(out)
    res.index()
    return res


# --------------------------------------------------------------------- Java
def java_string(text: str) -> str:
    """Java string literal of a *harness-chosen* meta-model name (identifier characters)."""
    assert re.fullmatch(r"[A-Za-z_][A-Za-z_0-9]*", text), text
    return '"' + text + '"'


JAVA_OPTIONAL_UNITS = {"Xmlization.java", "Constants.java"}


def java_driver_source(
    facts: Facts, gen: Generated, package: str, with_constants: bool = True
) -> str:
    names = Names("java")
    jsonization = (
        gen.root / "src/main/java" / package.replace(".", "/") / "jsonization/Jsonization.java"
    ).read_text(encoding="utf-8")
    imports = [
        f"import {package}.jsonization.Jsonization;",
        f"import {package}.verification.Verification;",
        f"import {package}.reporting.Reporting;",
        f"import {package}.stringification.Stringification;",
        f"import {package}.types.model.IClass;",
    ]
    if with_constants:
        imports.append(f"import {package}.constants.Constants;")
    if facts.enums:
        imports.append(f"import {package}.types.enums.*;")
    dispatch = []
    for cls in facts.concrete:
        # A class with descendants is read through its interface (dispatch on modelType),
        # like ``<cls>_from_jsonable`` of the Python SDK; otherwise through the class.
        interface = names.call("interface_name", cls)
        concrete = names.call("class_name", cls)
        if facts.pm.concrete_descendants(cls) and f" deserialize{interface}(" in jsonization:
            method = f"deserialize{interface}"
        else:
            method = f"deserialize{concrete}"
        dispatch.append(
            f"      case {java_string(cls)}:\n"
            f"        return Jsonization.Deserialize.{method}(node);"
        )
    tables = []
    for enum in facts.enums:
        e = names.call("enum_name", enum)
        from_string = names.call("method_name", f"{enum}_from_string")
        tables.append(f"    {{\n      ObjectNode t = enums.putObject({java_string(enum)});")
        for lit, _ in facts.pm.classes[enum].literals:
            l = names.call("enum_literal_name", lit)
            tables.append(
                f"      {{\n"
                f"        ArrayNode a = t.putArray({java_string(lit)});\n"
                f"        Optional<String> s = Stringification.toString({e}.{l});\n"
                f"        if (s.isPresent()) {{\n"
                f"          a.add(s.get());\n"
                f"          a.add(Stringification.{from_string}(s.get()).equals(Optional.of({e}.{l})));\n"
                f"        }} else {{\n"
                f"          a.addNull();\n"
                f"          a.add(false);\n"
                f"        }}\n"
                f"      }}"
            )
        tables.append("    }")
    if not with_constants:
        tables.append('    constants.put("__unavailable__", true);')
    for name, kind, elem in facts.constants if with_constants else []:
        field = names.call("property_name", name)
        tables.append(f"    {{\n      ObjectNode c = constants.putObject({java_string(name)});")
        if kind == "set_enum":
            e = names.call("enum_name", elem)
            tables.append(
                f"      ArrayNode a = c.putArray(\"set\");\n"
                f"      for ({e} v : Constants.{field}) {{\n"
                f"        a.add(Stringification.toString(v).orElse(null));\n"
                f"      }}"
            )
        elif kind.startswith("set_"):
            tables.append(
                f"      ArrayNode a = c.putArray(\"set\");\n"
                f"      for (Object v : Constants.{field}) {{\n"
                f"        a.add(MAPPER.valueToTree(v));\n"
                f"      }}"
            )
        else:
            tables.append(f"      c.set(\"value\", MAPPER.valueToTree(Constants.{field}));")
        tables.append("    }")
    template = (NATIVE / "Driver.java.in").read_text(encoding="utf-8")
    return (
        template.replace("@@IMPORTS@@", "\n".join(imports))
        .replace("@@DISPATCH@@", "\n".join(dispatch))
        .replace("@@TABLES@@", "\n".join(tables))
    )


def run_java(
    tools: Toolchains, facts: Facts, gen: Generated, cases: List[Dict[str, Any]], timeout: float
) -> LegResult:
    res = LegResult("java")
    root = gen.root
    package = (gen.result.workdir / "snippets" / "package.txt").read_text().strip()
    src = root / "src/main/java"
    (src / "Driver.java").write_text(java_driver_source(facts, gen, package), encoding="utf-8")
    classes = root / "classes"
    classes.mkdir(exist_ok=True)
    sources = sorted(str(p) for p in src.rglob("*.java"))
    (root / "sources.txt").write_text("\n".join(sources), encoding="utf-8")
    cp = ":".join(tools.jars)
    assert tools.javac is not None and tools.java is not None
    javac = [tools.javac, "-encoding", "UTF-8", "-proc:none", "-nowarn", "-Xmaxerrs", "400",
             "-cp", cp, "-d", str(classes), "@sources.txt"]
    t0 = time.time()
    deadline = t0 + timeout
    failures: List[str] = []
    left_out = False
    with_constants = True
    for attempt in range(3):
        proc = run_group(javac, root, max(deadline - time.time(), 5.0))
        if proc.rc is None:
            res.seconds["javac"] = time.time() - t0
            res.status, res.detail = "timeout", "javac"
            return res
        if proc.rc == 0:
            break
        output = proc.err + proc.out
        if not left_out:
            # diagnostics after a unit was left out may be a consequence of that
            failures.append(output[-6000:])
        # Work-arounds so that the JSON leg can go on *after* the diagnostics have been
        # recorded as a build failure (they are reported by the check either way):
        #  * a model without enumerations (or without constants): the emitted sources
        #    import ``<package>.types.enums.*`` (``<package>.constants.Constants``) which
        #    does not exist -> add a placeholder class;
        #  * units the JSON leg does not need (XML, the constant tables) are left out.
        broken = set(re.findall(r"([A-Za-z_0-9]+\.java):[0-9]+: error", output))
        absent = set()
        for pkg in re.findall(r"error: package (\S+) does not exist", output):
            if pkg.startswith(package + "."):
                # which names are imported from it?
                for name in re.findall(r"import " + re.escape(pkg) + r"\.([A-Za-z_0-9*]+);", output):
                    absent.add((pkg, "C09Placeholder" if name == "*" else name))
        created = False
        for pkg, name in sorted(absent):
            path = src / pkg.replace(".", "/") / f"{name}.java"
            if path.exists():
                continue
            path.parent.mkdir(parents=True, exist_ok=True)
            access = "final" if name == "C09Placeholder" else "public final"
            path.write_text(f"package {pkg};\n\n{access} class {name} {{}}\n", encoding="utf-8")
            sources.append(str(path))
            res.excluded_units.append(f"+{pkg[len(package) + 1:]}.{name}")
            created = True
        if created:
            pass
        elif broken and broken <= JAVA_OPTIONAL_UNITS:
            left_out = True
            res.excluded_units.extend(sorted(broken))
            sources = [p for p in sources if os.path.basename(p) not in broken]
            with_constants = with_constants and "Constants.java" not in broken
            (src / "Driver.java").write_text(
                java_driver_source(facts, gen, package, with_constants=with_constants),
                encoding="utf-8",
            )
        else:
            # only the diagnostics of the unchanged SDK count, not those which leaving a
            # unit out may have caused
            res.seconds["javac"] = time.time() - t0
            res.status, res.detail = "build-failed", "\n".join(failures)[-8000:]
            return res
        (root / "sources.txt").write_text("\n".join(sources), encoding="utf-8")
    else:
        res.seconds["javac"] = time.time() - t0
        res.status, res.detail = "build-failed", "\n".join(failures)[-8000:]
        return res
    res.seconds["javac"] = time.time() - t0
    res.partial_build_failure = "\n".join(failures)[-8000:]
    spec = {"cases": [{"i": c["i"], "cls": c["cls"], "doc": c["doc"]} for c in cases]}
    (root / "spec.json").write_text(json.dumps(spec, ensure_ascii=True), encoding="utf-8")
    proc = run_group(
        [tools.java, "-Xss64m", "-cp", f"{classes}:{cp}", "Driver", "spec.json", "out.jsonl"],
        root, max(deadline - time.time(), 30.0),
    )
    res.seconds["run"] = proc.seconds
    if proc.rc is None:
        res.status, res.detail = "timeout", "java"
        return res
    if proc.rc != 0:
        res.status, res.detail = "run-failed", (proc.err + proc.out)[-6000:]
        return res
    res.records = read_jsonl(root / "out.jsonl")
    res.index()
    return res


# --------------------------------------------------------------------- C++
def cpp_ident(text: str) -> str:
    assert re.fullmatch(r"[A-Za-z_][A-Za-z_0-9]*", text), text
    return text


def cpp_tokens(value: Any, out: List[str]) -> None:
    """Neutral token stream of an abstract value (see native/c09/driver.cpp.in)."""
    if value is None:
        out.append("N")
    elif isinstance(value, bool):
        out.append(f"B {int(value)}")
    elif isinstance(value, int):
        out.append(f"L {value}")
    elif isinstance(value, float):
        out.append(f"D {value!r}")
    elif isinstance(value, str):
        out.append(f"S {value.encode('utf-8').hex()}")
    elif isinstance(value, (bytes, bytearray)):
        out.append(f"Y {bytes(value).hex()}")
    elif isinstance(value, instances.EnumVal):
        out.append(f"E {value.enum} {value.literal}")
    elif isinstance(value, list):
        out.append(f"A {len(value)}")
        for item in value:
            cpp_tokens(item, out)
    elif isinstance(value, instances.Inst):
        out.append(f"I {value.cls} {len(value.props)}")
        for key, sub in value.props.items():
            out.append(f"P {key}")
            cpp_tokens(sub, out)
    else:
        raise TypeError(type(value))


def cpp_driver_source(facts: Facts, namespace: str, prefix: str) -> str:
    names = Names("cpp")
    pm = facts.pm

    def ctype(t: pyexec.TypeRef) -> str:
        if t.kind == "optional":
            return f"common::optional<{ctype(t.inner)} >"
        if t.kind == "list":
            return f"std::vector<{ctype(t.inner)} >"
        prim = pm.primitive_of(t.name)
        if prim is not None:
            return {
                "bool": "bool", "int": "int64_t", "float": "double", "str": "std::wstring",
                "bytearray": "std::vector<std::uint8_t>",
            }[prim]
        if pm.is_enum(t.name):
            return f"types::{names.call('enum_name', t.name)}"
        return f"std::shared_ptr<types::{names.call('interface_name', t.name)} >"

    def expr(t: pyexec.TypeRef, node: str) -> str:
        if t.kind == "optional":
            inner = ctype(t.inner)
            return (
                f"({node}.kind == 'N' ? common::optional<{inner} >() : "
                f"common::optional<{inner} >({expr(t.inner, node)}))"
            )
        if t.kind == "list":
            if t.inner.kind == "atomic" and pm.is_class(t.inner.name):
                return f"BuildList<types::{names.call('interface_name', t.inner.name)}>({node})"
            return (
                f"[&]() {{ {ctype(t)} items; for (const Node& item : {node}.items) "
                f"items.push_back({expr(t.inner, 'item')}); return items; }}()"
            )
        prim = pm.primitive_of(t.name)
        if prim is not None:
            return {
                "bool": f"{node}.b", "int": f"{node}.i", "float": f"{node}.d",
                "str": f"Utf8ToWide({node}.text)", "bytearray": f"{node}.bytes",
            }[prim]
        if pm.is_enum(t.name):
            return f"ParseEnum_{cpp_ident(t.name)}({node})"
        return f"BuildAs<types::{names.call('interface_name', t.name)}>({node})"

    builders: List[str] = []
    for enum in facts.enums:
        e = names.call("enum_name", enum)
        lines = [f"types::{e} ParseEnum_{cpp_ident(enum)}(const Node& n) {{"]
        for lit, _ in pm.classes[enum].literals:
            lines.append(
                f'  if (n.text == "{cpp_ident(lit)}") return types::{e}::{names.call("enum_literal_name", lit)};'
            )
        lines.append('  throw std::runtime_error("C09: unknown literal " + n.text);\n}')
        builders.append("\n".join(lines))
    for cls in facts.concrete:
        args = pm.init_args(cls) or []
        props = {prop.name: prop for _, prop in pm.all_props(cls)}
        lines = [f"std::shared_ptr<types::IClass> Build_{cpp_ident(cls)}(const Node& n) {{"]
        lines.append("  (void)n;")
        lines.append(f"  return std::make_shared<types::{names.call('class_name', cls)}>(")
        exprs = []
        for arg in args:
            prop = props[arg.name]
            exprs.append("    " + expr(prop.type, f'Prop(n, "{cpp_ident(prop.name)}")'))
        lines.append(",\n".join(exprs))
        lines.append("  );\n}")
        builders.append("\n".join(lines))
    lines = ["std::shared_ptr<types::IClass> Build(const Node& n) {"]
    for cls in facts.concrete:
        lines.append(f'  if (n.text == "{cpp_ident(cls)}") return Build_{cpp_ident(cls)}(n);')
    lines.append('  throw std::runtime_error("C09: unknown class " + n.text);\n}')
    builders.append("\n".join(lines))

    tables: List[str] = ['  out << "{\\"tables\\": {\\"enums\\": {";']
    for k, enum in enumerate(facts.enums):
        e = names.call("enum_name", enum)
        from_string = names.call("function_name", f"{enum}_from_string")
        tables.append(f'  out << "{", " if k else ""}\\"{cpp_ident(enum)}\\": {{";')
        for j, (lit, _) in enumerate(pm.classes[enum].literals):
            value = f"types::{e}::{names.call('enum_literal_name', lit)}"
            tables.append(
                "  {\n"
                f"    const std::string text = stringification::to_string({value});\n"
                f"    const auto back = stringification::{from_string}(text);\n"
                f'    out << "{", " if j else ""}\\"{cpp_ident(lit)}\\": [" << JsonOfNarrow(text) << ", "\n'
                f'        << ((back.has_value() && *back == {value}) ? "true" : "false") << ", "\n'
                f'        << JsonOfWide(wstringification::to_wstring({value})) << "]";\n'
                "  }"
            )
        tables.append('  out << "}";')
    tables.append('  out << "}, \\"constants\\": {";')
    for k, (name, kind, elem) in enumerate(facts.constants):
        const = f"constants::{names.call('constant_name', name)}"
        tables.append(f'  out << "{", " if k else ""}\\"{cpp_ident(name)}\\": ";')
        if kind.startswith("set_"):
            if kind == "set_enum":
                item = "JsonOfNarrow(stringification::to_string(v))"
            elif elem == "str":
                item = "JsonOfWide(v)"
            elif elem == "bool":
                item = '(v ? "true" : "false")'
            elif elem == "float":
                item = "JsonOfDouble(v)"
            else:
                item = "v"
            tables.append(
                '  {\n    out << "{\\"set\\": [";\n    bool first = true;\n'
                f"    for (const auto& v : {const}) {{\n"
                '      if (!first) out << ", ";\n      first = false;\n'
                f"      out << {item};\n    }}\n"
                '    out << "]}";\n  }'
            )
        else:
            item = {
                "str": f"JsonOfWide({const})",
                "bool": f'({const} ? "true" : "false")',
                "float": f"JsonOfDouble({const})",
                "int": const,
            }.get(elem)
            if item is None:
                tables.append(f'  out << "{{\\"unsupported\\": true}}";')
            else:
                tables.append(f'  out << "{{\\"value\\": " << {item} << "}}";')
    tables.append('  out << "}}}" << std::endl;')

    includes = "\n".join(
        f'#include "{prefix}/{name}.hpp"'
        for name in (
            "common", "constants", "iteration", "stringification", "types", "verification",
            "wstringification",
        )
    )
    template = (NATIVE / "driver.cpp.in").read_text(encoding="utf-8")
    return (
        template.replace("@@INCLUDES@@", includes)
        .replace("@@USING@@", f"using namespace {namespace};")
        .replace("@@PROPERTY_TO_WSTRING@@", names.call("function_name", "property_to_wstring"))
        .replace("@@BUILDERS@@", "\n\n".join(builders))
        .replace("@@TABLES@@", "\n".join(tables))
    )


CXXFLAGS = [
    "-std=c++17", "-O0", "-g0", "-w", "-fsanitize=address,undefined",
    "-fno-sanitize-recover=all", "-fno-omit-frame-pointer",
]
MODEL_INDEPENDENT = ("common", "revm")
SKIPPED_UNITS = ("jsonization", "xmlization")  # need nlohmann/json.hpp and expat


def _object_cache() -> pathlib.Path:
    path = env.scratch() / "c09-objcache"
    path.mkdir(exist_ok=True)
    return path


def run_cpp(
    tools: Toolchains, facts: Facts, gen: Generated, cases: List[Dict[str, Any]], timeout: float
) -> LegResult:
    """``cases``: [{"i", "cls", "inst" (abstract instance)}]."""
    import concurrent.futures
    import hashlib

    from aas_core_codegen.cpp import common as cpp_common
    from aas_core_codegen.common import Stripped

    res = LegResult("cpp")
    root = gen.root
    deadline = time.time() + timeout
    namespace = (gen.result.workdir / "snippets" / "namespace.txt").read_text().strip()
    prefix = str(cpp_common.generate_include_prefix_path(Stripped(namespace)))
    include = root / "include"
    (root / "driver.cpp").write_text(cpp_driver_source(facts, namespace, prefix), encoding="utf-8")
    lines: List[str] = []
    for case in cases:
        lines.append(f"C {case['i']}")
        cpp_tokens(case["inst"], lines)
    (root / "cases.txt").write_text("\n".join(lines) + "\n", encoding="utf-8")
    obj = root / "obj"
    obj.mkdir(exist_ok=True)
    units = [
        p for p in sorted((root / "src").glob("*.cpp")) if p.stem not in SKIPPED_UNITS
    ] + [root / "driver.cpp"]
    assert tools.gxx is not None
    base = [tools.gxx] + CXXFLAGS + ["-I", str(include), "-I", str(TL_DIR)]

    def compile_unit(path: pathlib.Path) -> Tuple[pathlib.Path, Optional[Proc], pathlib.Path]:
        target = obj / (path.stem + ".o")
        cached: Optional[pathlib.Path] = None
        if path.stem in MODEL_INDEPENDENT:
            digest = hashlib.sha256()
            digest.update(" ".join(CXXFLAGS).encode())
            digest.update(path.read_bytes())
            for header in sorted((include / prefix).glob("*.hpp")):
                if header.stem in MODEL_INDEPENDENT:
                    digest.update(header.read_bytes())
            cached = _object_cache() / f"{path.stem}-{digest.hexdigest()[:24]}.o"
            if cached.exists():
                shutil.copy(cached, target)
                return path, None, target
        proc = run_group(
            base + ["-c", str(path), "-o", str(target)], root, max(deadline - time.time(), 5.0)
        )
        if proc.rc == 0 and cached is not None:
            tmp = cached.with_suffix(f".tmp{os.getpid()}")
            shutil.copy(target, tmp)
            os.replace(tmp, cached)
        return path, proc, target

    t0 = time.time()
    # the heavy units first
    order = sorted(units, key=lambda p: -p.stat().st_size)
    objects: List[str] = []
    with concurrent.futures.ThreadPoolExecutor(max_workers=CPP_JOBS) as pool:
        for path, proc, target in pool.map(compile_unit, order):
            if proc is not None and proc.rc is None:
                res.status, res.detail = "timeout", f"g++ {path.name}"
            elif proc is not None and proc.rc != 0 and res.status == "ok":
                res.status, res.detail = "build-failed", (proc.err + proc.out)[-6000:]
            objects.append(str(target))
    res.seconds["compile"] = time.time() - t0
    if res.status != "ok":
        return res
    proc = run_group(
        [tools.gxx, "-fsanitize=address,undefined", "-o", "driver"] + objects,
        root, max(deadline - time.time(), 5.0),
    )
    res.seconds["link"] = proc.seconds
    if proc.rc is None:
        res.status, res.detail = "timeout", "link"
        return res
    if proc.rc != 0:
        res.status, res.detail = "build-failed", (proc.err + proc.out)[-6000:]
        return res
    log = root / "sanitizer"
    proc = run_group(
        [str(root / "driver"), "cases.txt", "out.jsonl"], root, max(deadline - time.time(), 5.0),
        extra_env={
            "ASAN_OPTIONS": f"log_path={log}:detect_leaks=1:abort_on_error=0",
            "UBSAN_OPTIONS": f"log_path={log}:print_stacktrace=1",
        },
    )
    res.seconds["run"] = proc.seconds
    reports = sorted(root.glob("sanitizer.*"))
    if reports:
        res.sanitizer_reports = len(reports)
        res.sanitizer_text = "\n".join(
            p.read_text(encoding="utf-8", errors="replace")[:4000] for p in reports[:3]
        )
    if proc.rc is None:
        res.status, res.detail = "timeout", "driver"
        return res
    res.records = read_jsonl(root / "out.jsonl")
    res.index()
    if proc.rc != 0 and not reports:
        res.status, res.detail = "run-failed", (proc.err + proc.out)[-6000:]
    return res


CPP_JOBS = int(os.environ.get("VERIF_C09_CPP_JOBS", "3"))
