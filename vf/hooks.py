"""E8: observation hooks installed from the harness (no source edits)."""
import functools
import importlib
import pkgutil
import sys
from typing import Any, Callable, Dict, List


def import_all_repo_modules() -> None:
    """Import every ``aas_core_codegen`` sub-module so that re-binding reaches all."""
    import aas_core_codegen

    for info in pkgutil.walk_packages(
        aas_core_codegen.__path__, prefix="aas_core_codegen."
    ):
        if ".tests" in info.name:
            continue
        try:
            importlib.import_module(info.name)
        except Exception:
            pass


def rebind_everywhere(original: Any, replacement: Any) -> int:
    """Replace every module-level reference to ``original`` in the repo's modules."""
    count = 0
    for name, module in list(sys.modules.items()):
        if module is None or not name.startswith("aas_core_codegen"):
            continue
        for attr, value in list(vars(module).items()):
            if value is original:
                setattr(module, attr, replacement)
                count += 1
    return count


class Monitor:
    """A counting wrapper around a real function with a post-call observer."""

    def __init__(
        self,
        module_name: str,
        func_name: str,
        observer: Callable[[tuple, dict, Any, BaseException], None],
    ) -> None:
        self.calls = 0
        module = importlib.import_module(module_name)
        self.original = getattr(module, func_name)
        original = self.original
        monitor = self

        @functools.wraps(original)
        def wrapper(*args: Any, **kwargs: Any) -> Any:
            monitor.calls += 1
            try:
                result = original(*args, **kwargs)
            except BaseException as err:
                observer(args, kwargs, None, err)
                raise
            observer(args, kwargs, result, None)
            return result

        self.wrapper = wrapper
        self.rebound = rebind_everywhere(original, wrapper)

    def uninstall(self) -> None:
        rebind_everywhere(self.wrapper, self.original)
