#!/venv/bin/python
"""Regenerate MANIFEST.json from the table in vf/registry.py and validate it."""
import json
import pathlib
import sys

ROOT = pathlib.Path(__file__).resolve().parent.parent
sys.path.insert(0, str(ROOT))
from vf import registry  # noqa

manifest = registry.manifest()
(ROOT / "MANIFEST.json").write_text(json.dumps(manifest, indent=1) + "\n")
try:
    import jsonschema

    schema = json.loads(pathlib.Path("/root/.vp/MANIFEST.schema.json").read_text())
    jsonschema.validate(manifest, schema)
    print("MANIFEST.json valid;", len(manifest["checks"]), "checks,",
          len(manifest.get("not_applicable", [])), "not applicable")
except FileNotFoundError:
    print("schema not found; written without validation")
