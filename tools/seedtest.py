#!/venv/bin/python
"""
Run registered checks against seeded defects kept under /verif/seeded/<name>/.

    tools/seedtest.py confirm <seed dir>        # demo passes without / fails with the patch
    tools/seedtest.py check <seed dir> [--tier quick] [--checks C05,C02] [--seed N]

``check`` applies patch.diff to /repo (git apply), runs the check(s) of the property
named in meta.json (or those given), and always undoes the patch (git checkout -- .).
``confirm`` works in a scratch worktree under /tmp which is removed afterwards.
"""
import argparse
import json
import os
import pathlib
import shutil
import subprocess
import sys
import tempfile
import time

REPO = "/repo"
VERIF = pathlib.Path(__file__).resolve().parent.parent


def sh(cmd, **kw):
    return subprocess.run(cmd, shell=isinstance(cmd, str), **kw)


def confirm(seed: pathlib.Path) -> int:
    wt = tempfile.mkdtemp(prefix="confirm-", dir="/tmp")
    os.rmdir(wt)
    sh(["git", "-C", REPO, "worktree", "add", "-q", wt, "HEAD"], check=True)
    try:
        demo = seed / "demo.py"
        text = demo.read_text()
        # demos were written against /tmp/seed-cNN: redirect to this worktree
        import re

        text = re.sub(r"/tmp/seed-c\d+[a-z]?", wt, text)
        # some demos find the repository relative to their own place (seed_out/<n>/demo.py)
        local = pathlib.Path(wt) / "seed_out" / "1" / "demo.py"
        local.parent.mkdir(parents=True, exist_ok=True)
        local.write_text(text)
        env = dict(os.environ, PYTHONPATH=wt)
        before = sh(["/venv/bin/python", str(local)], cwd=wt, env=env, capture_output=True, text=True, timeout=1800)
        applied = sh(["git", "-C", wt, "apply", str(seed / "patch.diff")])
        if applied.returncode != 0:
            print("PATCH DOES NOT APPLY")
            return 2
        after = sh(["/venv/bin/python", str(local)], cwd=wt, env=env, capture_output=True, text=True, timeout=1800)
        print(f"demo without patch: rc={before.returncode}; with patch: rc={after.returncode}")
        if before.returncode != 0:
            print(before.stdout[-1500:], before.stderr[-1500:])
        if after.returncode == 0:
            print(after.stdout[-1500:], after.stderr[-1500:])
        else:
            print("  with patch says:", (after.stdout + after.stderr).strip().splitlines()[-1][:300] if (after.stdout + after.stderr).strip() else "")
        return 0 if (before.returncode == 0 and after.returncode != 0) else 1
    finally:
        sh(["git", "-C", REPO, "worktree", "remove", "--force", wt])


def check(seed: pathlib.Path, tier: str, checks, vseed: int, budget, inplace: bool) -> int:
    meta_path = seed / "meta.json"
    meta = json.loads(meta_path.read_text()) if meta_path.exists() else {}
    if not checks:
        checks = [meta["property"]]
    if inplace:
        status = sh(["git", "-C", REPO, "status", "--porcelain", "--untracked-files=no"], capture_output=True, text=True).stdout.strip()
        if status:
            print("refusing: /repo has uncommitted changes:\n" + status)
            return 2
        target = REPO
    else:
        target = tempfile.mkdtemp(prefix="seedrun-", dir="/tmp")
        os.rmdir(target)
        sh(["git", "-C", REPO, "worktree", "add", "-q", target, "HEAD"], check=True)
    results = {}
    try:
        applied = sh(["git", "-C", target, "apply", str(seed / "patch.diff")])
        if applied.returncode != 0:
            print("PATCH DOES NOT APPLY")
            return 2
        for pid in checks:
            t0 = time.time()
            cmd = ["/venv/bin/python", "-m", "vf.run", pid, "--tier", tier, "--seed", str(vseed)]
            if budget:
                cmd += ["--budget", str(budget)]
            environ = dict(os.environ)
            if not inplace:
                environ["VERIF_REPO"] = target
            # keep the evidence and replays of the unchanged tree untouched
            environ["VERIF_EVIDENCE_DIR"] = f"/tmp/seedtest-out/{seed.name}/evidence"
            environ["VERIF_REPLAY_DIR"] = f"/tmp/seedtest-out/{seed.name}/replays"
            os.makedirs(environ["VERIF_EVIDENCE_DIR"], exist_ok=True)
            proc = sh(cmd, cwd=str(VERIF), capture_output=True, text=True, timeout=7200, env=environ)
            mechanisms = [l.strip() for l in proc.stdout.splitlines() if l.strip().startswith("mechanism:")]
            results[pid] = (proc.returncode, round(time.time() - t0), mechanisms[:6])
            print(f"{seed.name}: check {pid} tier={tier} -> rc={proc.returncode} in {results[pid][1]}s")
            for m in mechanisms[:6]:
                print("    ", m[:200])
            if proc.returncode not in (0, 1):
                print(proc.stdout[-1500:], proc.stderr[-1500:])
    finally:
        if inplace:
            sh(["git", "-C", REPO, "checkout", "--", "."])
        else:
            sh(["git", "-C", REPO, "worktree", "remove", "--force", target])
    out = seed / "detection.json"
    previous = json.loads(out.read_text()) if out.exists() else {}
    for pid, (rc, wall, mechanisms) in results.items():
        previous[f"{pid}/{tier}/seed{vseed}"] = {"rc": rc, "wall_s": wall, "mechanisms": mechanisms, "how": "git apply in /repo" if inplace else "scratch worktree + VERIF_REPO"}
    out.write_text(json.dumps(previous, indent=1) + "\n")
    return 0 if all(rc == 1 for rc, _, _ in results.values()) else 1


def main() -> int:
    parser = argparse.ArgumentParser()
    parser.add_argument("action", choices=["confirm", "check"])
    parser.add_argument("seed_dir")
    parser.add_argument("--tier", default="quick")
    parser.add_argument("--checks", default="")
    parser.add_argument("--seed", type=int, default=0)
    parser.add_argument("--budget", type=float, default=None)
    parser.add_argument("--inplace", action="store_true", help="apply to /repo itself (undone afterwards)")
    args = parser.parse_args()
    seed = pathlib.Path(args.seed_dir).resolve()
    if args.action == "confirm":
        return confirm(seed)
    return check(seed, args.tier, [c for c in args.checks.split(",") if c], args.seed, args.budget, args.inplace)


if __name__ == "__main__":
    sys.exit(main())
