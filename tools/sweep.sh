#!/bin/bash
# usage: tools/sweep.sh <tier> "<seeds>" <check> [<check> ...]   (run from /verif)
# Runs each check for each seed on the current /repo and prints verdict + new mechanisms.
tier=$1; seeds=$2; shift 2
for c in "$@"; do
  for s in $seeds; do
    out=$(VERIF_SEED=$s timeout 7200 /venv/bin/python -m vf.run $c --tier $tier 2>&1)
    echo "$out" | grep "^\[$c\]"
    echo "$out" | grep -E "^  mechanism:|^INCONCLUSIVE|^HARNESS" | sed "s/^/    $c seed=$s /"
  done
done
