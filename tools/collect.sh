#!/bin/bash
# usage: tools/collect.sh <check> <tier> <budget> "<seeds>"   -> prints all new mechanisms (from replays/)
c=$1; tier=$2; budget=$3; seeds=$4
for s in $seeds; do
  rm -rf replays/$c
  VERIF_SEED=$s timeout 14000 /venv/bin/python -m vf.run $c --tier $tier --budget $budget > /tmp/collect_$c_$s.log 2>&1
  grep "^\[$c\]" /tmp/collect_$c_$s.log
  /venv/bin/python - <<PY
import json,glob
for f in sorted(glob.glob('replays/$c/*.json')):
    w=json.load(open(f)); print("MECH $c seed=$s", w['mechanism'], "x%d"%w.get('count',1))
PY
done
