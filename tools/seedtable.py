#!/venv/bin/python
"""Write seeded/README.md: one row per seeded defect with what it needs and who caught it."""
import json
import pathlib

root = pathlib.Path(__file__).resolve().parent.parent / "seeded"
rows = []
for seed in sorted(root.iterdir()):
    if not seed.is_dir():
        continue
    meta = json.loads((seed / "meta.json").read_text()) if (seed / "meta.json").exists() else {}
    det = json.loads((seed / "detection.json").read_text()) if (seed / "detection.json").exists() else {}
    caught = sorted(k for k, v in det.items() if v["rc"] == 1)
    missed = sorted(k for k, v in det.items() if v["rc"] == 0)
    mech = ""
    for k in caught:
        if det[k]["mechanisms"]:
            mech = det[k]["mechanisms"][0].replace("mechanism: ", "")[:90]
            break
    rows.append((seed.name, meta.get("property", seed.name.split("-")[0]), (meta.get("summary", "") or "")[:160].replace("|", "/").replace("\n", " "),
                 (meta.get("needs_to_manifest", "") or "")[:160].replace("|", "/").replace("\n", " "),
                 ", ".join(caught) or "-", ", ".join(missed) or "-", mech.replace("|", "/")))
lines = ["# Seeded defects", "",
         "Each directory holds `patch.diff` (against /repo HEAD at the time), `demo.py` (fails with the change, passes without), `meta.json` and `detection.json` (written by `tools/seedtest.py check`).", "",
         "| seed | property | change | needs to manifest | caught by (check/tier/seed) | runs that missed | first mechanism |", "|---|---|---|---|---|---|---|"]
for row in rows:
    lines.append("| " + " | ".join(row) + " |")
(root / "README.md").write_text("\n".join(lines) + "\n")
print(f"{len(rows)} seeds")
